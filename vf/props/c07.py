"""C07 -- The result log faithfully records what evaluators produced.

Recording components: generated environments / learners / evaluators whose ``params`` are generated dictionaries and
whose evaluators yield generated rows.  Each case runs the real ``Experiment.run`` in-process (processes=1) nine times
-- no file, plain file, .gz file, and a two-stage (interrupted, then restored) run for each kind of file, plus
``Result.from_file`` on every file -- and checks

  (1) the four tables of the no-file Result against the *statement's* normalisation of what the components produced
      (``norm_match``: floats within 0.5e-5 and with <= 5 decimals, top-level sequences read back as tuples, non-string
      field names as ``str(name)``, absent fields None, NaN/inf preserved, everything else equal), rows of a triple in
      order and numbered 1..N, no triple lost or invented;
  (2) that every other Result (with file, from_file, restored) is *identical* to the no-file Result (``identical``:
      same columns in the same order, same rows, same cell types, NaN == NaN).

Nothing in ``norm_match`` is derived from coba's encoder/decoder.

Two further families of inputs (added after changes that the narrower workload missed):
  * plain data that *looks like* the log's own encoding of registered objects: dicts with exactly one key that is a
    registered class name ('L1', 'BR', 'DR', 'HR', 'zip') -- as nested values, as whole cells, as params values, and
    as the only field of a row / the only param -- must be read back as the dicts they are;
  * result files under other legal names: '.gz' inside the file name but not at its end, '.gz' in a directory name,
    other extensions, other letter case, blanks / non-ascii letters -- run fresh and restored, and ``from_file``.
    Whether the file on disk is compressed is found out from its first two bytes, never from its name.

And two more (same reason):
  * containers below the top level: params / cells of the shapes components really report (a sequence of sequences, a dict
    of sequences, a sequence of dicts holding sequences).  Only TOP-LEVEL sequences are normalised to tuples, so a list
    below the top level must be read back as a list ([1, 2] != (1, 2)); a tuple below the top level may come back as
    either (the statement is silent about it);
  * result files that exist before the run in a state other than "written by a stage-1 run whose components failed": a
    file without any complete record (0 bytes, a compressed stream of 0 bytes, the beginning of a first record) and a
    file holding the first k complete records of a log of the same experiment.  The Result of the run, the Result without
    a file and ``Result.from_file`` must be identical for these too.

And three more (behaviours of the unchanged tree that were noted while reading the code and lie inside the statement):
  * a learner that calls its family 'vw' without reporting 'args' / 'seed' (any params dictionary is in the quantifier):
    ``Experiment.run`` must return a Result;
  * field names that are equal after str(): one field spelled 1 in some rows and '1' in others (no ambiguity at all: both
    are the column '1'), or both spellings in one row (the cell may then hold either value, the statement does not say
    which -- but the triple still has its N rows, numbered 1..N, and its other fields);
  * a triple whose rows have no field at all: N rows were yielded, so N rows numbered 1..N are expected.
"""
import os, re, math, json, shutil, tempfile, traceback
from itertools import product

ID    = "C07"
LEVEL = "exploration"
RULE  = ("seeded experiments (1-3 environments x 1-2 learners x 1-2 evaluators, cross product or explicit triple list) whose "
         "evaluators yield generated rows and whose components report generated params; every case is run with no file, a plain "
         "file, a .gz file, a file under a generated other name ('.gz' inside the name / in a directory name / other extension or case) and as a "
         "two-stage restored run on each of these files, and on each of these files after it was put into a generated state before the run "
         "(0 bytes / compressed stream of 0 bytes / beginning of a first record / first k complete records of a log of the same experiment); one oracle evaluation group = one triple's row "
         "list (or one params table); distinct & non-trivial = distinct row-shape signature (row-count class, ragged / late / "
         "absent-in-first-row keys, non-string keys, field names equal after str() within a row / across rows, special column names, set of top-level cell kinds, nesting, columns mixing "
         "sequence and non-sequence cells) on a triple with at least one non-empty row")
PLAN  = {"quick":    {"shards": 16, "cases": 1600,  "timeout": 600,  "budget_s": 90},
         "thorough": {"shards": 16, "cases": 24000, "timeout": 3000, "budget_s": 900}}
REQUIRED = ["oracle.identical.interrupted-plain", "oracle.identical.interrupted-gz", "oracle.interactions.triples", "oracle.interactions.rows", "oracle.interactions.cells", "oracle.index-1..N",
            "oracle.params.environments", "oracle.params.learners", "oracle.params.evaluators",
            "oracle.identical.plain-run", "oracle.identical.plain-from_file", "oracle.identical.gz-run", "oracle.identical.gz-from_file",
            "oracle.identical.restored-plain", "oracle.identical.restored-gz", "restored.stage1-left-work-pending",
            "cells.float-rounded", "cells.top-level-seq", "cells.absent", "cells.nonstring-field-name", "cells.nan-or-inf",
            "cells.reward-object", "cells.nested", "cells.unicode-or-newline-str", "shape.seq-column-with-absent-cell",
            "cells.plain-dict-keyed-by-registered-name", "shape.sole-field-named-like-registered-class",
            "oracle.identical.altpath-run", "oracle.identical.altpath-from_file", "oracle.identical.restored-altpath",
            "paths.gz-inside-name", "paths.gz-in-directory-name", "paths.gz-suffix", "paths.no-gz",
            "cells.nested-list.params", "cells.nested-list.rows",
            "oracle.identical.existing-file.empty", "oracle.identical.existing-file.empty-compressed-stream",
            "oracle.identical.existing-file.partial-first-record", "oracle.identical.existing-file.record-prefix",
            "existing.record-prefix-left-work-pending",
            "params.learner-family-vw-without-args-or-seed", "params.learner-family-vw-with-args-and-seed",
            "shape.field-names-collide-after-str.within-row", "shape.field-names-collide-after-str.across-rows",
            "shape.rows-without-any-field"]
ASSUMPTIONS = [
    "names of params never collide after str() nor as python dict keys; params are named by str, int or non-integral float (typed Mapping[str,Any]); row fields also by bool, None or tuples, all expected back as str(name)",
    "row field names that are equal after str() (1 and '1') ARE generated: spelled differently in different rows (unambiguous) or both in one row -- the cell may then hold either of the two values (the statement does not say which), everything else about the triple is asserted as usual",
    "the id column names (environment_id, learner_id, evaluator_id, index) and 'eval_type' are not generated as field names (a table has one column per name: the statement cannot be met either way); a learner family 'vw' IS generated, with and without 'args' / 'seed' params",
    "plain dicts keyed by a registered class name (L1, HR, BR, DR, zip) ARE generated as data and are expected back as the dicts they are (the statement lists no normalisation that turns data into objects)",
    "result file paths are absolute, inside a fresh temporary directory; whether a written file is gzip-compressed is read from its magic bytes",
    "reward objects are compared by type and by behaviour on probe actions (HammingReward has no __eq__); their own parameters are finite",
    "a column named 'rewards' may read top-level sequences back as list or tuple (coba's explicit exception); below the top level a produced list must be read back as a list, a produced tuple as list or tuple",
    "a result file that exists before the run holds either no complete record at all or complete records that a run of the same experiment (same seed) wrote; such a run must give the Result of a run without a file",
    "the env_type / family / eval_type columns that coba's Safe* wrappers add are accepted and only compared across the Results",
    "a triple whose evaluator yields only rows without any field is expected back as that many rows numbered 1..N (no field to compare); Missing is read as None",
    "environment/learner/evaluator ids are the order of first appearance in the triple list",
    "floats: |read - yielded| <= 0.5e-5 (+4 ulp for |x| > 1e10) and the read value has at most 5 decimals; integral floats may read back as int",
]

ID_COLS  = ("environment_id", "learner_id", "evaluator_id", "index")
RESERVED = set(ID_COLS) | {"eval_type", "env_type", "family", "full_name"}
# names under which coba.json writes registered objects ({name: state}); plain data may use them as ordinary dict keys
TAG_NAMES = ["L1", "BR", "DR", "HR", "zip"]
FLOAT_TOL = 0.5e-5

# ====================================================================================================================
# spec values: JSON-able tagged encoding   (None/bool/int/str/finite float as is)
#   {"F": "nan"|"inf"|"-inf"}   {"L":[..]} list   {"T":[..]} tuple   {"D":[[key,val],..]} dict   {"R":[name,*args]} reward
# ====================================================================================================================
def build(s):
    if isinstance(s, dict):
        if "F" in s: return float(s["F"])
        if "L" in s: return [build(x) for x in s["L"]]
        if "T" in s: return tuple(build(x) for x in s["T"])
        if "D" in s: return {build(k): build(v) for k, v in s["D"]}
        if "R" in s: return build_reward(s["R"])
        raise ValueError(s)
    return s

def build_reward(r):
    from coba.primitives import BinaryReward, DiscreteReward, HammingReward, L1Reward
    name = r[0]
    if name == "BR": return BinaryReward(build(r[1])) if len(r) == 2 else BinaryReward(build(r[1]), build(r[2]))
    if name == "L1": return L1Reward(build(r[1]))
    if name == "HR": return HammingReward(build(r[1]))
    if name == "DRp": return DiscreteReward(build(r[1]), build(r[2]), default=build(r[3]))
    if name == "DRm": return DiscreteReward(build(r[1]), default=build(r[2]))
    raise ValueError(r)

def kind_of(s):
    """top-level kind of a spec value (used in shapes and signatures)"""
    if s is None: return "none"
    if isinstance(s, bool): return "bool"
    if isinstance(s, int): return "int"
    if isinstance(s, float): return "float"
    if isinstance(s, str): return "str"
    if "F" in s: return "nan-inf"
    if "L" in s: return "list"
    if "T" in s: return "tuple"
    if "D" in s: return "dict"
    if "R" in s: return "reward"
    raise ValueError(s)

def is_seq(s):   return isinstance(s, dict) and ("L" in s or "T" in s)
def depth_of(s):
    if isinstance(s, dict):
        if "L" in s or "T" in s: return 1 + max([depth_of(x) for x in (s.get("L") or s.get("T") or [])] or [0])
        if "D" in s: return 1 + max([depth_of(v) for _, v in s["D"]] or [0])
    return 0

# ====================================================================================================================
# generators
# ====================================================================================================================
STRS = ["", "a", "abc", "x y", "é", "日本語", "π≈3.14159", "line1\nline2", "tab\there", "cr\rlf\r\n", 'q"uote', "back\\slash",
        "comma,semi;", "{brace}", "[1,2]", "null", "NaN", "1", "0.5", " sep", "\x00nul", "emoji😀", "\ud800", "%s?", " lead", "trail "]
KEYS = ["a", "b", "c", "d", "reward", "rewards", "action", "probability", "x y", "é", "k\nl", 'q"', "_packed", "I", "E", "1x",
        "None", "time", "context", "actions", "A", "a.b", "a,b", ""]

def gen_float(rng):
    r = rng.random()
    if r < .45: return rng.uniform(-10, 10)                               # many decimals
    if r < .55: return round(rng.uniform(-3, 3), rng.choice([1, 2, 3, 4, 5, 6, 7]))
    if r < .65: return float(rng.randint(-5, 5))                          # integral float
    if r < .72: return rng.choice([1e-7, -1e-7, 4.9e-6, 5.1e-6, -0.0, 1e-300, 0.000005, 0.000015, 1.000005, 2.5e-5])
    if r < .80: return rng.choice([1e15 + .5, 123456789.123456, 1e300, -1e22, 2.0**53, 99999.999995, 1e10 + 1e-5])
    if r < .90: return rng.choice([0.1, 0.2, 0.3, 1/3, 2/3, 0.1 + 0.2, 1.123456789, 0.999995, 0.123455, 0.123445])
    return rng.uniform(-1, 1) * 10 ** rng.randint(-6, 6)

def gen_scalar(rng):
    r = rng.random()
    if r < .22: return rng.choice([0, 1, -1, 2, 7, 10**6, 2**63, -2**70, 3])
    if r < .52: return gen_float(rng)
    if r < .72: return rng.choice(STRS)
    if r < .80: return None
    if r < .87: return rng.choice([True, False])
    return {"F": rng.choice(["nan", "inf", "-inf", "nan"])}

def gen_reward(rng):
    r = rng.random()
    acts = rng.choice([[0, 1, 2], ["a", "b", "c"], [{"T": [1, 0]}, {"T": [0, 1]}], [1.5, 2.5]])
    if r < .3:
        am = rng.choice(acts)
        return {"R": ["BR", am]} if rng.random() < .5 else {"R": ["BR", am, rng.choice([2, 0.5, 2.123456789, -1])]}
    if r < .5:  return {"R": ["L1", rng.choice([1, 1.5, 0.123456789, -2])]}
    if r < .7:  return {"R": ["HR", {"L": rng.sample(acts, rng.randint(1, len(acts)))}]}
    rw = [rng.choice([0, 1, 0.25, 0.123456789]) for _ in acts]
    if r < .85: return {"R": ["DRp", {"L": acts}, {"L": rw}, rng.choice([0, -1, 0.5])]}
    return {"R": ["DRm", {"D": [[a, w] for a, w in zip(acts, rw)]}, rng.choice([0, 2])]}

def gen_nested_key(rng, used):
    for _ in range(20):
        k = rng.choice(["k", "x", "y", "é", "a b", "n\n", 1, 2, 10, "z"]) if rng.random() < .9 else rng.choice([1.5, 2.25])
        if str(k) not in used:
            used.add(str(k)); return k
    k = f"k{len(used)}"; used.add(k); return k

def gen_statelike(rng):
    """plain data of the shapes that the states of registered objects have (a number, a list of actions, [argmax, value], ...)"""
    r = rng.random()
    if r < .35: return rng.choice([0, 1, 10, 0.5, 0.01, 1.5, 0.123456789, -2])
    if r < .55: return {"L": [rng.choice([0, 1, 2, "a", "b"]) for _ in range(rng.choice([1, 2, 3]))]}
    if r < .70: return {"L": [rng.choice([0, 1, "a"]), rng.choice([1, 2, 0.5])]}
    if r < .80: return {"L": [{"L": [0, 1, 2]}, {"L": [0.25, 0, 1]}, 0]}
    if r < .90: return rng.choice(["a", "x.zip", "", None])
    return {"D": [["a", 1], ["b", 0.5]]}

def gen_dict(rng, depth, allow_reward=True):
    """a plain dict.  Some are keyed by the names under which the log writes registered objects: exactly one such key
    (indistinguishable, in the file, from a written object), or such a key among others"""
    r = rng.random()
    if r < .22:
        v = gen_statelike(rng) if rng.random() < .6 or depth >= 3 else gen_value(rng, depth + 1, allow_reward)
        return {"D": [[rng.choice(TAG_NAMES), v]]}
    if r < .30:
        used = set(); tag = rng.choice(TAG_NAMES); used.add(tag)
        items = [[tag, gen_statelike(rng)]] + [[gen_nested_key(rng, used), gen_value(rng, depth + 1, allow_reward)] for _ in range(rng.choice([1, 2]))]
        rng.shuffle(items)
        return {"D": items}
    used = set(); n = rng.choice([0, 1, 2, 2, 3])
    return {"D": [[gen_nested_key(rng, used), gen_value(rng, depth + 1, allow_reward)] for _ in range(n)]}

def gen_value(rng, depth=0, allow_reward=True):
    r = rng.random()
    if depth >= 3 or r < .55: return gen_scalar(rng)
    if r < .70: return {"L": [gen_value(rng, depth + 1, allow_reward) for _ in range(rng.choice([0, 1, 2, 2, 3]))]}
    if r < .82: return {"T": [gen_value(rng, depth + 1, allow_reward) for _ in range(rng.choice([0, 1, 2, 3]))]}
    if r < .93 or not allow_reward: return gen_dict(rng, depth, allow_reward)
    return gen_reward(rng)

def gen_field_names(rng, n, extra_reserved=(), rows=False):
    """field names that stay distinct both as python dict keys (True == 1) and after str().  Names of params are
    str / int / float (params are typed Mapping[str,Any]; numbers are what JSON coerces); row fields may also be
    named by bool, None or a tuple (the statement: non-string field names are read back as strings)"""
    names, used, usedk = [], set(RESERVED) | set(extra_reserved), []
    while len(names) < n:
        r = rng.random()
        if   r < .06: k = rng.choice(TAG_NAMES)              # a field that merely shares its name with a registered class
        elif r < .66: k = rng.choice(KEYS)
        elif r < .84: k = rng.choice([0, 1, 2, 3, 7, -1, 10, 42])
        elif r < .90: k = rng.choice([1.5, 0.25, -2.5, 1e-3])
        elif r < .95 and rows: k = rng.choice([True, False, None, {"T": [1, 2]}, {"T": ["a", 0.5]}, {"T": []}])
        else:         k = rng.choice(STRS)
        bk = build(k)
        if str(bk) in used or any(bk == u for u in usedk): continue
        used.add(str(bk)); usedk.append(bk); names.append(k)
    return names

COLKINDS = ["scalar", "scalar", "float", "str", "seq", "seq", "dict", "any", "any", "reward", "seq-or-scalar", "nested-seq", "config"]
def gen_cell(rng, ck):
    if ck == "scalar": return gen_scalar(rng)
    if ck == "float":  return gen_float(rng)
    if ck == "str":    return rng.choice(STRS)
    if ck == "seq":
        return {rng.choice("LT"): [gen_scalar(rng) if rng.random() < .8 else gen_value(rng, 1) for _ in range(rng.choice([0, 1, 2, 2, 3]))]}
    if ck == "nested-seq":
        return {rng.choice("LT"): [{rng.choice("LT"): [gen_scalar(rng) for _ in range(rng.choice([0, 1, 2]))]} for _ in range(rng.choice([1, 2, 3]))]}
    if ck == "dict": return gen_dict(rng, 0)
    if ck == "config": return gen_config_value(rng)
    if ck == "reward": return gen_reward(rng)
    if ck == "seq-or-scalar": return gen_cell(rng, "seq") if rng.random() < .5 else gen_scalar(rng)
    return gen_value(rng, 0)

def gen_rows(rng):
    """the rows one evaluator yields for one (environment, learner): list of [[key, value], ...] (ordered items)"""
    n = rng.choice([0, 1, 1, 2, 2, 3, 3, 4, 5, 8])
    if n == 0: return []
    if rng.random() < .03: return [[] for _ in range(n)]       # an evaluator that has nothing to say about its n interactions
    ncol  = rng.choice([1, 1, 2, 3, 3, 4, 5, 6])
    names = gen_field_names(rng, ncol, rows=True)
    if rng.random() < .04: names = [rng.choice(TAG_NAMES)]     # the whole record of the triple is then a one-key dict
    # field names that are equal after str(): a non-string name and its str() -- as two fields of the same rows, or as two
    # spellings of one field (each row uses one of them)
    twin, respell = None, None
    if n >= 2 and rng.random() < .12:
        nonstr = [k for k in names if not isinstance(k, str)]
        if not nonstr and len(names) < 6:
            k = rng.choice([1, 2, 7, 1.5, None, True, {"T": [1, 2]}])
            if not any(str(build(k)) == str(build(u)) or build(k) == build(u) for u in names): names.append(k); nonstr = [k]
        if nonstr:
            k = rng.choice(nonstr)
            if rng.random() < .4: twin = (k, str(build(k)))
            else: respell = (k, str(build(k)), rng.randrange(n), rng.randrange(n))
    cols  = []
    for k in names:
        ck = rng.choice(COLKINDS)
        if k == "rewards" and rng.random() < .6: ck = "seq"
        r = rng.random()
        presence = "all" if r < .5 else "ragged" if r < .8 else "late" if r < .9 else "early"
        if (twin and twin[0] == k) or (respell and respell[0] == k): presence = "all" if r < .7 else "ragged"
        cols.append((k, ck, presence, rng.randrange(n)))
        if twin and twin[0] == k: cols.append((twin[1], rng.choice([ck, "scalar", "str"]), "all" if rng.random() < .6 else "ragged", 0))
    rows = []
    for i in range(n):
        items = []
        order = list(cols)
        if rng.random() < .3: rng.shuffle(order)            # rows need not list their fields in one order
        for k, ck, presence, pivot in order:
            here = (presence == "all" or (presence == "ragged" and rng.random() < .6)
                    or (presence == "late" and i >= pivot) or (presence == "early" and i <= pivot))
            if here and respell and respell[0] == k and (i == respell[2] or (i != respell[3] and rng.random() < .5)): k = respell[1]
            if here: items.append([k, gen_cell(rng, ck)])
        rows.append(items)
    return rows

def collide_class(rows):
    """do field names of a triple's rows fall together after str()?  'within-row': some row holds two such fields;
    'across-rows': only different rows do (one field, spelled differently); '': no"""
    allk = {}
    within = False
    for items in rows:
        seen = {}
        for k, _ in items:
            bk = build(k); sk = str(bk)
            if sk in seen and not (seen[sk] == bk and type(seen[sk]) is type(bk)): within = True
            seen[sk] = bk
            allk.setdefault(sk, set()).add((type(bk).__name__, repr(bk)))
    if within: return "within-row"
    return "across-rows" if any(len(v) > 1 for v in allk.values()) else ""

def gen_config_value(rng):
    """values of the shapes that real components report as params (layer lists, grids, option dicts): containers that
    hold containers -- a sequence of sequences, a dict whose values are sequences, a sequence of dicts holding sequences"""
    def leafs(): return [rng.choice([0, 1, 2, 16, 0.1, 0.01, 0.5, "relu", "id", "a", None, True]) for _ in range(rng.choice([0, 1, 2, 3]))]
    def seq(items): return {rng.choice("LLT"): items}
    r = rng.random()
    if r < .35: return seq([seq(leafs()) for _ in range(rng.choice([1, 2, 3]))])
    if r < .60: return {"D": [[k, seq(leafs())] for k in rng.sample(["lr", "w", "k", "é", 1], rng.choice([1, 2]))]}
    if r < .80: return seq([{"D": [[rng.choice(["w", "k", 2]), seq(leafs())]]} for _ in range(rng.choice([1, 2]))])
    if r < .90: return {"D": [["deep", {"D": [["k", seq([seq(leafs())])]]}], ["lr", seq(leafs())]]}
    return seq([seq([seq(leafs())]), rng.choice([0, "a", None])])

def gen_params(rng, extra_reserved=(), allow=("family",), vw=False):
    n = rng.choice([0, 1, 1, 2, 2, 3, 4])
    names = gen_field_names(rng, n, extra_reserved)
    if rng.random() < .04: names = [rng.choice(TAG_NAMES)]
    items = [[k, gen_config_value(rng) if rng.random() < .12 else gen_value(rng, 0, allow_reward=rng.random() < .3)] for k in names]
    for special in allow:
        if rng.random() < .15: items.append([special, rng.choice(["mine", "é\n", 3, 1.5, None])])
    if vw and rng.random() < .08:
        # a learner that calls its family 'vw'; coba's own vw learners also report 'args' and 'seed', others need not
        have = rng.choice(["none", "none", "args", "seed", "both", "both"])
        items = [it for it in items if it[0] not in ("family", "args", "seed")] + [["family", "vw"]]
        if have in ("args", "both"): items.append(["args", rng.choice(["--cb_explore_adf --epsilon 0.1", "", "é --x 1"])])
        if have in ("seed", "both"): items.append(["seed", rng.choice([1, 7, None])])
        rng.shuffle(items)
    return items

# other legal names for the result file.  coba chooses between plain text and gzip from the name, in more than one place
# (writer, reader, repair of a partly written file): what matters is that a name is treated the same way everywhere.
ALT_NAMES = {
    "no-gz":          ["result.txt", "result", "result.log.1", "r é s.log", "結果.json", "result.g.z", "gz.log", "result.zip"],
    "gz-suffix":      ["result.gz", "a.b.gz", "r e s.log.gz", ".gz", "x.gz.gz"],
    "gz-inside-name": ["result.gz.bak", "result.gzip", "run1.gz.log", "x.gz.1", ".gz.log", "a.gz b.txt", "result.gz~", "result.gz.tmp"],
    "other-case":     ["result.GZ", "result.log.Gz", "RESULT.GZ.log"],
}
ALT_DIRS = [None, None, None, "out", "runs.gz.d", "a.gz", "x y", "d.gz.d/sub", ".gz"]
def gen_altpath(rng):
    cls = rng.choice(["no-gz", "gz-suffix", "gz-inside-name", "gz-inside-name", "gz-inside-name", "other-case"])
    d = rng.choice(ALT_DIRS)
    if d is not None and ".gz" in d and rng.random() < .6: cls = rng.choice(["no-gz", "no-gz", "other-case"])
    return {"dir": d, "name": rng.choice(ALT_NAMES[cls])}

def path_class(alt):
    """structural class of a result file path: where (if anywhere) '.gz' occurs in it"""
    d, n = alt.get("dir") or "", alt["name"]
    flags = []
    if n.endswith(".gz"): flags.append("gz-suffix")
    elif ".gz" in n: flags.append("gz-inside-name")
    if ".gz" in d: flags.append("gz-in-directory-name")
    if not flags and ".gz" in (d + "/" + n).lower(): flags.append("gz-in-other-letter-case")
    return "+".join(flags) or "no-gz"

# what the result file holds when the run starts (besides "no such file" and "what a stage-1 run with failing components
# wrote", which every case runs): a file that exists but holds no complete record -- nothing at all, a compressed stream
# of nothing, the beginning of a first record -- or the first k complete records of a log of this very experiment
EXISTING = ["empty", "empty", "empty-compressed-stream", "partial-first-record", "record-prefix", "record-prefix"]
def gen_existing(rng):
    return {"state": rng.choice(EXISTING), "frac": round(rng.random(), 3), "keep": rng.choice([1, 2, 5, 9])}

def gen_case(rng):
    ne, nl, nv = rng.choice([1, 1, 2, 2, 3]), rng.choice([1, 1, 2]), rng.choice([1, 1, 1, 2])
    cross = list(product(range(ne), range(nl), range(nv)))
    form = rng.choice(["product", "product", "triples"])
    if form == "triples":
        k = rng.randint(1, len(cross)); triples = rng.sample(cross, k)
    else:
        triples = cross
    triples = [list(t) for t in triples]
    envs = [{"params": gen_params(rng, allow=("env_type",)), "style": rng.choice(["fresh", "stored"])} for _ in range(ne)]
    lrns = [{"params": gen_params(rng, allow=("family",), vw=True), "style": rng.choice(["fresh", "stored"])} for _ in range(nl)]
    vals = []
    for v in range(nv):
        style = rng.choice(["generator", "generator", "list", "function"])
        vals.append({"params": [] if style == "function" else gen_params(rng, allow=()), "style": style,
                     "pstyle": rng.choice(["fresh", "stored"]),
                     "rows": {f"{e},{l}": gen_rows(rng) for e, l, vv in triples if vv == v}})
    # stage 1 of the restored runs: which evaluations / params fail the first time round
    fail = {"triples": [t for t in triples if rng.random() < .5], "after": rng.choice([0, 0, 1, 2]),
            "env": [i for i in range(ne) if rng.random() < .3], "lrn": [i for i in range(nl) if rng.random() < .3]}
    # (an evaluator whose params raise is recorded with empty params by SafeEvaluator, so that is not a way to leave work pending)
    if not (fail["triples"] or fail["env"] or fail["lrn"]): fail["triples"] = [rng.choice(triples)]
    return {"form": form, "triples": triples, "envs": envs, "lrns": lrns, "vals": vals, "fail": fail,
            "description": rng.choice([None, "d", "é\n\"x\"", "two words"]), "seed": rng.choice([1, 1, None, 7]),
            "altpath": gen_altpath(rng),
            "existing": {kind: gen_existing(rng) for kind in ("plain", "gz", "altpath")}}

# ====================================================================================================================
# recording components (built fresh from the spec for every run)
# ====================================================================================================================
class StageFailure(Exception): pass

class _Comp:
    def __init__(self, tag, items, style):
        self.tag, self._items, self._style = tag, items, style
        self._stored = {build(k): build(v) for k, v in items}
        self.fail_params = False
        self.params_calls = 0
    @property
    def params(self):
        self.params_calls += 1
        if self.fail_params: raise StageFailure(f"params of {self.tag} fail in stage 1")
        return self._stored if self._style == "stored" else {build(k): build(v) for k, v in self._items}

class GenEnv(_Comp):
    def read(self):
        return iter(())

class GenLrn(_Comp):
    def predict(self, context, actions): return actions[0]
    def learn(self, *a, **k): pass

class GenVal(_Comp):
    def __init__(self, tag, spec):
        super().__init__(tag, spec["params"], spec["pstyle"])
        self.rows, self.style = spec["rows"], spec["style"]
        self.fail_pairs, self.fail_after = set(), 0
        self.interrupt_pair = None
        self.yielded = []        # (env tag, lrn tag, number of rows handed over)
    def _gen(self, env, lrn):
        pair = f"{env.tag},{lrn.tag}"
        if pair == self.interrupt_pair: raise KeyboardInterrupt()      # the user's Ctrl-C while this evaluation starts
        n = 0
        for items in self.rows[pair]:
            if pair in self.fail_pairs and n >= self.fail_after: raise StageFailure(f"evaluation {pair} fails in stage 1")
            n += 1
            yield {build(k): build(v) for k, v in items}
        if pair in self.fail_pairs: raise StageFailure(f"evaluation {pair} fails in stage 1")
        self.yielded.append((env.tag, lrn.tag, n))
    def evaluate(self, env, lrn):
        return list(self._gen(env, lrn)) if self.style == "list" else self._gen(env, lrn)

def make_function_evaluator(val):
    def fn_evaluator(env, lrn): return val._gen(env, lrn)
    fn_evaluator._val = val
    return fn_evaluator

def build_experiment(spec, stage1=False, interrupt=None):
    from coba.experiments import Experiment
    envs = [GenEnv(i, e["params"], e["style"]) for i, e in enumerate(spec["envs"])]
    lrns = [GenLrn(i, l["params"], l["style"]) for i, l in enumerate(spec["lrns"])]
    gvs  = [GenVal(i, v) for i, v in enumerate(spec["vals"])]
    if stage1:
        f = spec["fail"]
        for i in f["env"]: envs[i].fail_params = True
        for i in f["lrn"]: lrns[i].fail_params = True
        for e, l, v in f["triples"]:
            gvs[v].fail_pairs.add(f"{e},{l}"); gvs[v].fail_after = f["after"]
    if interrupt is not None:
        e, l, v = interrupt; gvs[v].interrupt_pair = f"{e},{l}"
    vals = [make_function_evaluator(g) if g.style == "function" else g for g in gvs]
    if spec["form"] == "product" and len(spec["triples"]) == len(envs) * len(lrns) * len(vals):
        exp = Experiment(envs, lrns, vals, description=spec["description"])
    else:
        exp = Experiment([(envs[e], lrns[l], vals[v]) for e, l, v in spec["triples"]], description=spec["description"])
    return exp

# ====================================================================================================================
# the oracle: normalisation written from the statement
# ====================================================================================================================
def _is_missing(g):
    from coba.results.core import Missing
    return g is None or g is Missing

def reward_probe(r):
    """observable behaviour of a reward object: its values on its own actions and on foreign ones"""
    from coba.primitives import BinaryReward, DiscreteReward, HammingReward, L1Reward
    def call(a):
        try: return ("v", r(a))
        except Exception as e: return ("raise", type(e).__name__)
    if isinstance(r, L1Reward):       return [call(a) for a in (0, 1, 1.5, -2, 0.123456789, 10)]
    if isinstance(r, BinaryReward):   return [call(a) for a in (0, 1, 2, "a", "b", "c", (1, 0), (0, 1), 1.5, 2.5, "zz")]
    if isinstance(r, HammingReward):  return [call(a) for a in ([0], [1, 2], [0, 1, 2], ["a"], ["a", "c"], [(1, 0)], [(0, 1), (1, 0)], [1.5], [2.5, 1.5], ["zz"])]
    if isinstance(r, DiscreteReward): return [call(a) for a in (0, 1, 2, "a", "b", "c", (1, 0), (0, 1), 1.5, 2.5, "zz", 99)]
    return None

def _num_eq(a, b):
    if isinstance(a, float) and a != a: return isinstance(b, float) and b != b
    return a == b

def norm_match(o, g, depth=0, col=None, cnt=None):
    """does the value `g` read from a table equal the produced value `o` up to the documented normalisation?
    returns None (yes) or (code, detail) -- (code, detail, "nested") when the difference lies inside a container"""
    from coba.primitives import Rewards
    def c(name):
        if cnt is not None: cnt[name] = cnt.get(name, 0) + 1
    if depth > 0: c("cells.nested")
    if o is None:
        return None if _is_missing(g) else ("none/not-none", f"None read back as {_safe_repr(g)}")
    if isinstance(o, bool):
        return None if g is o else ("value-changed/kind=bool", f"{o!r} read back as {_safe_repr(g)}")
    if isinstance(o, int):
        return None if (type(g) is int and g == o) else ("value-changed/kind=int", f"{o!r} read back as {_safe_repr(g)}")
    if isinstance(o, float):
        if o != o:
            c("cells.nan-or-inf")
            return None if (isinstance(g, float) and g != g) else ("value-changed/kind=nan", f"nan read back as {_safe_repr(g)}")
        if o in (math.inf, -math.inf):
            c("cells.nan-or-inf")
            return None if (isinstance(g, float) and g == o) else ("value-changed/kind=inf", f"{o!r} read back as {_safe_repr(g)}")
        if isinstance(g, bool) or not isinstance(g, (int, float)):
            return ("value-changed/kind=float", f"{o!r} read back as {_safe_repr(g)}")
        if g != g or g in (math.inf, -math.inf):
            return ("value-changed/kind=float", f"{o!r} read back as {_safe_repr(g)}")
        c("cells.float")
        if round(o, 5) != o: c("cells.float-rounded")
        tol = FLOAT_TOL * (1 + 1e-9) + (4 * math.ulp(o) if abs(o) > 1e10 else 1e-15)
        if abs(g - o) > tol:
            return ("float/differs-by-more-than-half-1e-5", f"{o!r} read back as {_safe_repr(g)}")
        if isinstance(g, float) and abs(o) < 1e10 and abs(g - round(g, 5)) > 1e-12 * max(1.0, abs(g)):
            return ("float/more-than-5-decimals", f"{o!r} read back as {_safe_repr(g)}")
        return None
    if isinstance(o, str):
        if any(ord(ch) > 127 or ch in "\n\r" for ch in o): c("cells.unicode-or-newline-str")
        return None if (type(g) is str and g == o) else ("value-changed/kind=str", f"{o!r} read back as {_safe_repr(g)}")
    if isinstance(o, (list, tuple)):
        if depth == 0:
            c("cells.top-level-seq")
            if col == "rewards":
                if not isinstance(g, (list, tuple)): return ("value-changed/kind=seq", f"{o!r} read back as {_safe_repr(g)}")
            elif type(g) is not tuple:
                if isinstance(g, list): return ("top-level-seq/read-back-as-list", f"{o!r} read back as {_safe_repr(g)}")
                return ("value-changed/kind=seq", f"{o!r} read back as {_safe_repr(g)}")
        elif not isinstance(g, (list, tuple)):
            return ("value-changed/kind=nested-seq", f"{o!r} read back as {_safe_repr(g)}")
        elif isinstance(o, list):
            # only TOP-LEVEL sequences are normalised (to tuples): a list below the top level is plain data and
            # [1, 2] != (1, 2).  (A tuple below the top level may come back as list or tuple: the statement is silent.)
            c("cells.nested-list.params" if col is None else "cells.nested-list.rows")
            if type(g) is not list:
                return ("nested-list/read-back-as-tuple", f"the list {o!r} below the top level read back as {_safe_repr(g)}")
        if len(g) != len(o): return ("value-changed/kind=seq-length", f"{o!r} read back as {_safe_repr(g)}")
        for a, b in zip(o, g):
            r = norm_match(a, b, depth + 1, col, cnt)
            if r: return (r[0], r[1], "nested")
        return None
    if isinstance(o, dict):
        if len(o) == 1 and next(iter(o)) in TAG_NAMES:
            # plain data that, once written, cannot be told from a written registered object: it is still data
            c("cells.plain-dict-keyed-by-registered-name")
            if type(g) is not dict:
                return ("plain-dict-keyed-by-registered-name/read-back-as=object", f"the dict {o!r} read back as {_safe_repr(g)} ({type(g).__name__})")
        if type(g) is not dict: return ("value-changed/kind=dict", f"{o!r} read back as {_safe_repr(g)}")
        want = {str(k): v for k, v in o.items()}
        if set(want) != set(g.keys()): return ("value-changed/kind=dict-keys", f"{o!r} read back as {_safe_repr(g)}")
        for k, v in want.items():
            r = norm_match(v, g[k], depth + 1, col, cnt)
            if r: return (r[0], r[1], "nested")
        return None
    if isinstance(o, Rewards):
        c("cells.reward-object")
        if type(g) is not type(o):
            return (f"reward-object/read-back-as={type(g).__name__}", f"{o!r} read back as {_safe_repr(g)}")
        if reward_probe(o) != reward_probe(g):
            return ("reward-object/behaviour-changed", f"{o!r} read back as {_safe_repr(g)}")
        return None
    raise TypeError(f"unexpected produced value {o!r}")

def identical(a, b, path=""):
    """strict structural identity of two values read from two Results (NaN == NaN, same types at every depth)"""
    from coba.primitives import Rewards
    from coba.results.core import Missing
    if a is Missing or b is Missing: return None if a is b else f"{path}: {a!r} vs {b!r} (Missing)"
    if type(a) is not type(b): return f"{path}: {type(a).__name__} {a!r} vs {type(b).__name__} {b!r}"
    if isinstance(a, float): return None if _num_eq(a, b) else f"{path}: {a!r} vs {b!r}"
    if isinstance(a, (list, tuple)):
        if len(a) != len(b): return f"{path}: length {len(a)} vs {len(b)}"
        for i, (x, y) in enumerate(zip(a, b)):
            r = identical(x, y, f"{path}[{i}]")
            if r: return r
        return None
    if isinstance(a, dict):
        if list(a.keys()) != list(b.keys()): return f"{path}: keys {list(a)} vs {list(b)}"
        for k in a:
            r = identical(a[k], b[k], f"{path}[{k!r}]")
            if r: return r
        return None
    if isinstance(a, Rewards):
        return None if identical(reward_probe(a), reward_probe(b), path + "<probe>") is None else f"{path}: {_safe_repr(a)} vs {_safe_repr(b)}"
    if isinstance(a, (str, int, bool, type(None))): return None if a == b else f"{path}: {a!r} vs {b!r}"
    # any other object (same type): equal, or without an __eq__ of its own and in the same state
    try:
        if a == b: return None
    except Exception: pass
    try:
        sa, sb = a.__getstate__(), b.__getstate__()
        if type(a).__eq__ is object.__eq__ and identical(sa, sb, path + "<state>") is None: return None
    except Exception: pass
    return f"{path}: {_safe_repr(a)} vs {_safe_repr(b)}"

def _safe_repr(x):
    try: return repr(x)
    except Exception as e: return f"<{type(x).__name__} whose repr raises {type(e).__name__}>"

def table_dump(t):
    cols = tuple(t.columns)
    return cols, [tuple(r) for r in t] if cols else []

def results_identical(r0, r1):
    for name in ("environments", "learners", "evaluators", "interactions"):
        c0, rows0 = table_dump(getattr(r0, name)); c1, rows1 = table_dump(getattr(r1, name))
        if c0 != c1: return name, "columns", f"{c0} vs {c1}"
        if len(rows0) != len(rows1): return name, "row-count", f"{len(rows0)} vs {len(rows1)} rows"
        d = identical(rows0, rows1, name)
        if d: return name, "cells", d
    d = identical(r0.experiment, r1.experiment, "experiment")
    if d: return "experiment", "cells", d
    return None

# ---------------------------------------------------------------------------------------------------- shapes / signatures
def column_shape(rows, key):
    """how the cells of one field look across the rows of a triple"""
    kinds = []
    for items in rows:
        d = {str(build(k)): v for k, v in items}
        kinds.append("absent" if str(key) not in d else kind_of(d[str(key)]))
    seq = [k in ("list", "tuple") for k in kinds]
    mixed = any(seq) and not all(seq)
    first = "seq" if seq[0] else kinds[0] if kinds[0] in ("absent", "none") else "scalar"
    others = sorted({("absent" if k == "absent" else "none" if k == "none" else "str" if k == "str" else "dict" if k == "dict" else "other")
                     for k, s in zip(kinds, seq) if not s}) if mixed else []
    return {"kinds": kinds, "has_seq": any(seq), "mixed": mixed, "first": first, "others": others}

def triple_shape(rows):
    n = len(rows)
    keys = []
    for items in rows:
        for k, _ in items:
            k = build(k)
            if not any(k == u and type(k) is type(u) for u in keys): keys.append(k)
    nclass = "0" if n == 0 else "1" if n == 1 else "2-3" if n <= 3 else "4+"
    if not keys: return (nclass, "no-fields"), False
    sizes = {len(items) for items in rows}
    first_keys = {str(build(k)) for k, _ in rows[0]}
    ragged   = any({str(build(k)) for k, _ in items} != {str(k) for k in keys} for items in rows)
    late     = any(str(k) not in first_keys for k in keys)
    nonstr   = sorted({type(k).__name__ for k in keys if not isinstance(k, str)})
    special  = sorted({k for k in keys if k in ("reward", "rewards", "_packed")})
    topkinds = sorted({kind_of(v) for items in rows for _, v in items})
    nesting  = max([depth_of(v) for items in rows for _, v in items] or [0])
    mixedseq = sorted({(cs["first"],) + tuple(cs["others"]) for cs in (column_shape(rows, k) for k in keys) if cs["mixed"]})
    emptyrow = 0 in sizes
    tagged   = ("sole-field" if len(keys) == 1 and keys[0] in TAG_NAMES else "value" if any(_has_tagged(v) for items in rows for _, v in items) else "")
    return (nclass, ragged, late, emptyrow, tuple(nonstr), tuple(special), tuple(topkinds), min(nesting, 3), tuple(mixedseq), tagged, collide_class(rows)), True

def _innermost_coba_frame(exc):
    tb = traceback.extract_tb(exc.__traceback__)
    for fr in reversed(tb):
        if "/coba/" in fr.filename.replace("\\", "/") and "/tests/" not in fr.filename: return fr.name
    return tb[-1].name if tb else "?"

def raise_signature(spec, exc, data_flags=True):
    """mechanism-level signature for an exception that escapes Experiment.run / Result.from_file.  data_flags=False: the
    same data was written and read without an exception by a run that differs in something else, so the structural
    features of the data are not part of the mechanism"""
    fn = _innermost_coba_frame(exc)
    sig = f"raise:{type(exc).__name__}@{fn}"
    if not data_flags: return sig
    if isinstance(exc, KeyError) and fn == "__init__" and vw_learners(spec)[2]:
        return sig + VW_FLAG
    if fn in ("packed_list2tuple", "<dictcomp>", "filter") and isinstance(exc, TypeError):
        # the first column (triples in id order, fields in str order) that starts with a sequence cell and holds a non-sequence one
        for e, l, v in sorted(map(tuple, spec["triples"])):
            rows = spec["vals"][v]["rows"][f"{e},{l}"]
            keys = sorted({str(build(k)) for items in rows for k, _ in items})
            for k in keys:
                if k == "rewards": continue
                cs = column_shape(rows, k)
                if cs["mixed"] and cs["first"] == "seq":
                    # str and dict cells are iterable (silently mangled); the first other non-sequence cell is what raises
                    firstbad = next((kk for kk in cs["kinds"] if kk not in ("list", "tuple", "str", "dict")), None)
                    if firstbad is None: continue
                    firstbad = "absent-or-None" if firstbad in ("absent", "none") else "scalar"
                    return sig + f"/column-starts-with-seq-cell/has-{firstbad}-cell"
    if fn in ("__setstate__", "__repr__", "loads_registered", "list2tuple", "packed_list2tuple", "<dictcomp>", "filter") and spec_has_tagged_dict(spec):
        return sig + "/data-holds-plain-dict-keyed-by-registered-name"
    return sig

VW_FLAG = "/learner-family=vw-without-args-or-seed"
def vw_learners(spec):
    """(learners of the experiment that call their family 'vw' while 'args' or 'seed' is no column of the learners table,
        learners that call their family 'vw' and report both, learners that call their family 'vw' and do not report both)"""
    used = {l for _, l, _ in spec["triples"]}
    names = [{build(k) for k, _ in spec["lrns"][l]["params"]} for l in sorted(used)]
    cols = set().union(*names) if names else set()
    vw = [nm for l, nm in zip(sorted(used), names) if any(build(k) == "family" and v == "vw" for k, v in spec["lrns"][l]["params"])]
    bare = sum(1 for nm in vw if not {"args", "seed"} <= cols)
    full = sum(1 for nm in vw if {"args", "seed"} <= nm)
    own  = sum(1 for nm in vw if not {"args", "seed"} <= nm)     # (in stage 1 of a restored run the other learners may not be recorded)
    return bare, full, own

def _has_tagged(s):
    if isinstance(s, dict):
        if "D" in s:
            if len(s["D"]) == 1 and s["D"][0][0] in TAG_NAMES: return True
            return any(_has_tagged(v) for _, v in s["D"])
        if "L" in s or "T" in s: return any(_has_tagged(x) for x in (s.get("L") or s.get("T") or []))
    return False

def spec_has_tagged_dict(spec):
    """does the case hold plain data that is written as a one-key dict keyed by a registered class name (a value, or
    the only field of all rows of a triple, or the only param of a component)?"""
    for grp in ("envs", "lrns", "vals"):
        for comp in spec[grp]:
            items = comp["params"]
            if len(items) == 1 and items[0][0] in TAG_NAMES: return True
            if any(_has_tagged(v) for _, v in items): return True
    for val in spec["vals"]:
        for rows in val["rows"].values():
            names = {str(build(k)) for items in rows for k, _ in items}
            if len(names) == 1 and next(iter(names)) in TAG_NAMES: return True
            if any(_has_tagged(v) for items in rows for _, v in items): return True
    return False

# ====================================================================================================================
# running one case
# ====================================================================================================================
class _LogSink:
    def __init__(self): self.items = []
    def write(self, item): self.items.append(item)

def _logged_exceptions(sink):
    """(ExceptionType@innermost-function, text) for every exception coba logged, except the planned stage-1 failures"""
    out = []
    for s in sink.items:
        if not isinstance(s, str) or "StageFailure" in s: continue
        if "EXCEPTION:" in s:
            out.append(("CobaException", s[-600:]))
        elif "Unexpected exception" in s:
            lines = s.splitlines()
            frames = [i for i, ln in enumerate(lines) if ln.startswith('  File "')]
            fn, name = "?", "Exception"
            if frames:
                m = re.search(r", in (\S+)", lines[frames[-1]]); fn = m.group(1) if m else "?"
                for ln in lines[frames[-1] + 2:]:
                    m = re.match(r"^\s*(?:[\w]+\.)*(\w+)(?::|$)", ln)
                    if m: name = m.group(1); break
            out.append((f"{name}@{fn}", s[-600:]))
    return out

def _run(exp, path, sink):
    from coba.context import CobaContext, NullLogger
    old = CobaContext.logger
    CobaContext.logger = NullLogger(sink)
    try:
        return exp.run(path, quiet=True, processes=1, maxchunksperchild=0, maxtasksperchunk=0, seed=exp._vf_seed)
    finally:
        CobaContext.logger = old

def ids_of(spec):
    """ids by order of first appearance in the triple list"""
    em, lm, vm = {}, {}, {}
    for e, l, v in spec["triples"]:
        em.setdefault(e, len(em)); lm.setdefault(l, len(lm)); vm.setdefault(v, len(vm))
    return em, lm, vm

def check_params_table(table, idcol, comps, idmap, extra_ok, name, viol, cnt, note):
    cols = tuple(table.columns)
    rows = [dict(zip(cols, r)) for r in table] if cols else []
    byid = {r[idcol]: r for r in rows}
    want_ids = sorted(idmap.values())
    if sorted(byid) != want_ids or len(rows) != len(want_ids):
        viol.append((f"{name}/rows/ids-differ", f"{name} table has ids {sorted(byid)} (rows {len(rows)}), expected {want_ids}")); return
    for tag, cid in idmap.items():
        note(f"oracle.params.{name}")
        produced = {build(k): build(v) for k, v in comps[tag]["params"]}
        want = {}
        for k, v in produced.items():
            if not isinstance(k, str): cnt["cells.nonstring-field-name"] = cnt.get("cells.nonstring-field-name", 0) + 1
            want[str(k)] = v
        row = byid[cid]
        for k, v in want.items():
            if k not in row:
                kk = "str" if any(isinstance(pk, str) and pk == k for pk in produced) else "nonstring"
                viol.append((f"{name}/param-missing/field-name={kk}", f"{name} id {cid}: param {k!r} is not a column (columns {cols})")); return
            r = norm_match(v, row[k], 0, None, cnt)
            if r:
                viol.append((f"{name}/{r[0]}", f"{name} id {cid} param {k!r}: {r[1]}")); return
        for k, g in row.items():
            if k == idcol or k in want: continue
            if k in extra_ok and k not in want: continue       # the Safe* wrapper's type field
            if not _is_missing(g):
                viol.append((f"{name}/param-invented", f"{name} id {cid}: column {k!r} holds {_safe_repr(g)} but the component has no such param")); return
            cnt["cells.absent"] = cnt.get("cells.absent", 0) + 1

def check_against_model(spec, res, viol, ctx, cnt):
    def note(n, k=1):
        if ctx: ctx.count(n, k)
    em, lm, vm = ids_of(spec)
    check_params_table(res.environments, "environment_id", spec["envs"], em, ("env_type",),  "environments", viol, cnt, note)
    check_params_table(res.learners,     "learner_id",     spec["lrns"], lm, ("family",),    "learners",     viol, cnt, note)
    check_params_table(res.evaluators,   "evaluator_id",   spec["vals"], vm, ("eval_type",), "evaluators",   viol, cnt, note)
    if ctx:
        pk = tuple(sorted({(kind_of(v), type(k).__name__) for grp in ("envs", "lrns", "vals") for c in spec[grp] for k, v in c["params"]}))
        ctx.case(("params", pk), nontrivial=bool(pk))

    t = res.interactions
    cols = tuple(t.columns)
    if cols[:4] != ID_COLS and set(ID_COLS) - set(cols):
        viol.append(("interactions/id-columns-missing", f"columns {cols}")); return
    got = {}
    for r in (t if cols else []):
        d = dict(zip(cols, r))
        got.setdefault((d["environment_id"], d["learner_id"], d["evaluator_id"]), []).append(d)
    expected = {}
    for e, l, v in spec["triples"]:
        expected[(em[e], lm[l], vm[v])] = spec["vals"][v]["rows"][f"{e},{l}"]

    def check_triple(tid, rows, grows, fieldless, out):
        note("oracle.interactions.triples")
        if len(grows) != len(rows):
            names = {str(build(k)) for items in rows for k, _ in items}
            sole = "/sole-field-named-like-registered-class" if len(names) == 1 and next(iter(names)) in TAG_NAMES else ""
            out.append((f"interactions/row-count/{'lost' if len(grows) < len(rows) else 'extra'}-rows{sole}{fieldless}",
                         f"triple {tid}: evaluator yielded {len(rows)} rows, table has {len(grows)}")); return
        if not rows: return
        note("oracle.index-1..N")
        idx = [g["index"] for g in grows]
        if idx != list(range(1, len(rows) + 1)) or any(type(i) is not int for i in idx):
            out.append(("interactions/index-not-1..N", f"triple {tid}: index column reads {idx} for {len(rows)} rows")); return
        keys = sorted({str(build(k)) for items in rows for k, _ in items})
        if len(keys) == 1 and keys[0] in TAG_NAMES: note("shape.sole-field-named-like-registered-class")
        shapes = {k: column_shape(rows, k) for k in keys}
        for k, cs in shapes.items():
            if cs["has_seq"] and "absent" in cs["kinds"]: note("shape.seq-column-with-absent-cell")
            if cs["mixed"]: note("shape.seq-column-with-nonseq-cell")
        bad = False
        for i, (items, g) in enumerate(zip(rows, grows)):
            note("oracle.interactions.rows")
            produced = {build(k): build(v) for k, v in items}
            want = {}                            # column -> the values the row holds under a name that reads so (nearly always one)
            for k, v in produced.items():
                if not isinstance(k, str): cnt["cells.nonstring-field-name"] = cnt.get("cells.nonstring-field-name", 0) + 1
                want.setdefault(str(k), []).append(v)
            for k in keys:
                note("oracle.interactions.cells")
                cs = shapes[k]
                colflag = f"/column-mixes-seq-and-nonseq-cells/first-cell={'seq' if cs['first'] == 'seq' else 'nonseq'}" if cs["mixed"] else ""
                if k not in g:
                    kk = "str" if any(isinstance(pk, str) and pk == k for pk in produced) or k not in want else "nonstring"
                    out.append((f"interactions/field-missing/field-name={kk}", f"triple {tid} row {i+1}: field {k!r} is not a column (columns {cols})")); bad = True; break
                if k in want:
                    # two fields of the row under one name: the statement does not say which one the cell holds
                    rs = [norm_match(o, g[k], 0, k, cnt) for o in want[k]]
                    # (when the cell is one of them up to a difference that has its own signature, that difference is what is reported)
                    r = None if None in rs else next((x for x in rs if x[0].startswith("reward-object/read-back-as=dict")), rs[0])
                    if r:
                        # the make-up of the column only belongs to the mechanism when the cell itself (not its content) is wrong
                        flag = colflag if len(r) == 2 and (cs["first"] == "seq" or r[0].startswith("top-level-seq")) and not r[0].startswith("reward-object/read-back-as=dict") else ""
                        out.append((f"interactions/{r[0]}{flag}", f"triple {tid} row {i+1} field {k!r}: {r[1]}; column cells {cs['kinds']}")); bad = True; break
                else:
                    cnt["cells.absent"] = cnt.get("cells.absent", 0) + 1
                    if not _is_missing(g[k]):
                        out.append((f"interactions/absent-field-not-None{colflag}", f"triple {tid} row {i+1}: absent field {k!r} reads {_safe_repr(g[k])}")); bad = True; break
            if bad: break
            for k, val in g.items():            # fields of other triples must be empty here
                if k in ID_COLS or k in want or k in keys: continue
                if not _is_missing(val):
                    out.append(("interactions/field-invented", f"triple {tid} row {i+1}: column {k!r} holds {_safe_repr(val)}, the row has no such field")); bad = True; break
            if bad: break

    # (the packed columns of one triple are appended to the columns of the whole table: columns of unequal length move
    #  the rows of every triple that is inserted later)
    elsewhere = next((c for c in (collide_class(rows) for _, rows in sorted(expected.items())) if c), "")
    for tid, rows in sorted(expected.items()):
        shape, nontrivial = triple_shape(rows)
        if ctx: ctx.case(("rows", shape), nontrivial=nontrivial)
        grows = got.pop(tid, [])
        fieldless = "/rows-without-any-field" if rows and not nontrivial else ""
        if fieldless: note("shape.rows-without-any-field")       # N rows were yielded: N rows numbered 1..N are expected
        collide = collide_class(rows)
        if collide: note(f"shape.field-names-collide-after-str.{collide}")
        mine = []
        check_triple(tid, rows, grows, fieldless, mine)
        for sig, what in mine:
            # field names that fall together after str(): one mechanism (cells of two fields packed into one column), many
            # faces (rows too many, cells of this and of other columns moved to other rows) -- one signature per face
            if "reward-object/read-back-as=dict" in sig: pass
            elif collide:
                face = "row-count" if sig.startswith("interactions/row-count") else "index-not-1..N" if "index-not" in sig else "cell-of-another-row-or-lost"
                sig = f"interactions/field-names-collide-after-str={collide}/{face}"
            elif elsewhere and not fieldless:
                sig = f"interactions/field-names-collide-after-str={elsewhere}/rows-of-another-triple-of-the-table"
            viol.append((sig, what))
    for tid, grows in got.items():
        viol.append(("interactions/rows-for-unknown-triple", f"table holds {len(grows)} rows for triple {tid} which is not in the experiment"))

def check_case(spec, ctx=None):
    """runs one experiment in all file modes; returns list of (sig, what)"""
    from coba.results import Result
    viol, cnt = [], {}
    def note(n, k=1):
        if ctx: ctx.count(n, k)
    tmp = tempfile.mkdtemp(prefix="vf-c07-")
    try:
        def run(path, stage1=False, interrupt=None):
            exp = build_experiment(spec, stage1, interrupt); exp._vf_seed = spec["seed"]
            sink = _LogSink()
            return _run(exp, path, sink), sink

        # ---------------------------------------------------------------- (1) no file vs the statement
        bare, full, _ = vw_learners(spec)
        if bare: note("params.learner-family-vw-without-args-or-seed")
        if full: note("params.learner-family-vw-with-args-and-seed")
        try:
            r0, sink = run(None)
        except Exception as e:
            return [("run/no-file/" + raise_signature(spec, e), f"Experiment.run() raised {type(e).__name__}: {e}")]
        note("runs.no-file")
        for name, text in _logged_exceptions(sink):
            viol.append((f"run/no-file/logged-exception:{name}", f"Experiment.run logged an exception although no component failed: {text}"))
        if viol: return viol
        check_against_model(spec, r0, viol, ctx, cnt)
        for k, n in cnt.items(): note(k, n)
        # (what the tables hold and whether all Results agree are separate questions: (2) is asked in any case)

        # ---------------------------------------------------------------- (2) every other Result is identical to it
        files = [("plain", "plain", None, "result.log"), ("gz", "gz", None, "result.log.gz")]
        alt = spec.get("altpath")
        if alt:
            pc = path_class(alt)
            files.append(("altpath", f"path={pc}", alt.get("dir"), alt["name"]))
        for kind, siglabel, subdir, fname in files:
            for restored in (False, True):
                folder = os.path.join(tmp, "restored" if restored else "fresh", *(subdir.split("/") if subdir else []))
                os.makedirs(folder, exist_ok=True)
                path = os.path.join(folder, fname)
                label = f"restored-{kind}" if restored else kind
                sigl  = f"restored-{siglabel}" if restored else siglabel
                if kind == "altpath" and not restored:
                    for flag in pc.split("+"): note(f"paths.{flag}")
                try:
                    if restored:
                        _, s1 = run(path, stage1=True)
                        n1 = _count_records(path)
                        r, sink = run(path)
                        n2 = _count_records(path)
                        if n2 > n1 and n1 >= 2: note("restored.stage1-left-work-pending")
                        else: note("restored.stage1-left-nothing-pending")
                    else:
                        r, sink = run(path)
                    f = Result.from_file(path)
                except Exception as e:
                    rs = raise_signature(spec, e)
                    # (which file it is does not belong to the mechanism when the learners table itself cannot be made)
                    where = ("restored" if restored else "with-file") if rs.endswith(VW_FLAG) else sigl
                    viol.append((f"run/{where}/" + rs, f"{label} {fname!r}: raised {type(e).__name__}: {e}")); continue
                for name, text in _logged_exceptions(sink):
                    viol.append((f"run/{sigl}/logged-exception:{name}", f"{label} {fname!r}: Experiment.run logged an exception although no component failed: {text}"))
                d = results_identical(r0, r)
                note(f"oracle.identical.{label}" if restored else f"oracle.identical.{kind}-run")
                if d: viol.append((f"identical/{sigl}-run-vs-no-file/{d[0]}/{d[1]}", f"Result returned by run({_show(subdir, fname)}) differs from Result without a file: {d[2]}"))
                d = results_identical(r, f)
                note(f"oracle.identical.{label}-from_file" if restored else f"oracle.identical.{kind}-from_file")
                if d: viol.append((f"identical/{sigl}-from_file-vs-run/{d[0]}/{d[1]}", f"Result.from_file({_show(subdir, fname)}) differs from the Result run returned: {d[2]}"))

        # ---------------------------------------------------------------- (2b) ... and when the run is interrupted (Ctrl-C is caught by
        # Experiment.run, which returns what was recorded so far): the same interruption point with no file / plain / gz
        trip = [tuple(t) for t in spec["triples"]]
        if len(trip) >= 3 and not viol:
            at = trip[(2 * len(trip)) // 3]
            try:
                ri, _ = run(None, interrupt=at)
                note("runs.interrupted")
                for kind, fname in (("plain", "int.log"), ("gz", "int.log.gz")):
                    folder = os.path.join(tmp, "interrupted"); os.makedirs(folder, exist_ok=True)
                    path = os.path.join(folder, fname)
                    r, _ = run(path, interrupt=at)
                    f = Result.from_file(path)
                    note(f"oracle.identical.interrupted-{kind}")
                    d = results_identical(ri, r)
                    if d: viol.append((f"identical/interrupted-{kind}-run-vs-no-file/{d[0]}/{d[1]}", f"a run interrupted by Ctrl-C at triple {at}: the Result returned with {fname} differs from the one without a file: {d[2]}"))
                    d = results_identical(r, f)
                    if d: viol.append((f"identical/interrupted-{kind}-from_file-vs-run/{d[0]}/{d[1]}", f"a run interrupted by Ctrl-C at triple {at}: Result.from_file({fname}) differs from the Result run returned: {d[2]}"))
            except BaseException as e:
                if isinstance(e, SystemExit): raise
                viol.append((f"run/interrupted/raise:{type(e).__name__}", f"a run interrupted by Ctrl-C at triple {at} raised {type(e).__name__}: {e}"))

        # ---------------------------------------------------------------- (3) ... also when the file exists before the run
        for kind, siglabel, subdir, fname in files:
            pre = (spec.get("existing") or {}).get(kind)
            fresh = os.path.join(tmp, "fresh", *(subdir.split("/") if subdir else []), fname)
            if not pre or not os.path.exists(fresh): continue
            folder = os.path.join(tmp, "existing", *(subdir.split("/") if subdir else []))
            os.makedirs(folder, exist_ok=True)
            path = os.path.join(folder, fname)
            state, n1 = _make_existing_file(fresh, path, pre)
            sigl = f"{siglabel}/existing-file={state}"
            try:
                r, sink = run(path)
                f = Result.from_file(path)
            except Exception as e:
                viol.append((f"run/{sigl}/" + raise_signature(spec, e, data_flags=False), f"{kind} {fname!r} ({state} before the run): raised {type(e).__name__}: {e}")); continue
            if state == "record-prefix":
                note("existing.record-prefix-left-work-pending" if _count_records(path) > n1 else "existing.record-prefix-left-nothing-pending")
            for name, text in _logged_exceptions(sink):
                viol.append((f"run/{sigl}/logged-exception:{name}", f"{kind} {fname!r} ({state} before the run): Experiment.run logged an exception although no component failed: {text}"))
            note(f"oracle.identical.existing-file.{state}")
            d = results_identical(r0, r)
            if d: viol.append((f"identical/{sigl}-run-vs-no-file/{d[0]}/{d[1]}", f"Result returned by run({_show(subdir, fname)}), a file that was {state} before the run, differs from Result without a file: {d[2]}"))
            d = results_identical(r, f)
            if d: viol.append((f"identical/{sigl}-from_file-vs-run/{d[0]}/{d[1]}", f"Result.from_file({_show(subdir, fname)}), a file that was {state} before the run, differs from the Result run returned: {d[2]}"))
        return viol
    finally:
        shutil.rmtree(tmp, ignore_errors=True)

def _make_existing_file(fresh, path, pre):
    """puts the result file into the state `pre` before a run.  `fresh` is the complete log that a run of the same experiment
    wrote under the same name: it tells whether files of this name are compressed (magic bytes) and provides the records.
    returns (state actually made, number of complete records in it)"""
    import gzip
    with open(fresh, "rb") as f: raw = f.read()
    compressed = raw[:2] == b"\x1f\x8b"
    lines = [ln for ln in (gzip.decompress(raw) if compressed else raw).split(b"\n") if ln.strip()]
    state = pre["state"]
    if state == "empty-compressed-stream" and not compressed: state = "empty"
    if state in ("partial-first-record", "record-prefix") and not lines: state = "empty"
    if state == "empty":                     data, text, n = b"", None, 0
    elif state == "empty-compressed-stream": data, text, n = None, b"", 0
    elif state == "partial-first-record":    data, text, n = None, lines[0][:max(1, min(len(lines[0]) - 1, pre["keep"]))], 0
    else:
        n = min(len(lines), 1 + int(pre["frac"] * len(lines)))
        data, text = None, b"".join(ln + b"\n" for ln in lines[:n])
    if data is None: data = gzip.compress(text) if compressed else text
    with open(path, "wb") as f: f.write(data)
    return state, n

def _show(subdir, fname):
    return repr(f"{subdir}/{fname}" if subdir else fname)

def _count_records(path):
    """complete-or-not records in the file; whether it is compressed is read from its first two bytes, not from its name"""
    import gzip
    if not os.path.exists(path): return 0
    with open(path, "rb") as f: magic = f.read(2)
    op = gzip.open if magic == b"\x1f\x8b" else open
    with op(path, "rb") as f: return sum(1 for ln in f if ln.strip())

# ====================================================================================================================
# entry points
# ====================================================================================================================
def run_shard(ctx):
    import warnings; warnings.simplefilter("ignore")
    i = 0
    while i < ctx.n and ctx.time_left() > 0:
        spec = gen_case(ctx.rng)
        try:
            v = check_case(spec, ctx)
        except Exception as e:
            raise RuntimeError(f"harness error on case {json.dumps(spec)[:3000]}") from e
        rows0 = next(iter(spec["vals"][spec["triples"][0][2]]["rows"].values()))
        if not ctx.samples and len(rows0) >= 2:
            ctx.sample({"triples": spec["triples"], "env0_params": spec["envs"][0]["params"], "rows_of_first_triple": rows0[:3],
                        "fail_in_stage_1": spec["fail"]})
        # (the harness turns whatever lies deeper than 12 levels into its repr: deeply nested cells would not replay)
        for sig, what in v: ctx.violation(sig, what, {"spec_json": json.dumps(spec)})
        i += 1
    ctx.count("experiments", i)
    if i < ctx.n: ctx.extra["experiments_skipped_for_time"] = ctx.n - i

def replay(witness):
    import warnings; warnings.simplefilter("ignore")
    return check_case(json.loads(witness["spec_json"]) if "spec_json" in witness else witness)
