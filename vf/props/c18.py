"""C18 -- Analysis compares only complete, equal-length runs and averages correctly.

Reference recomputation: every generated Result is built through the real coba constructors (row lists, Tables,
the TransactionResult loader, or a real small Experiment), a chain of where / where_best / where_fin is applied to
the real object and after every step the four real tables are read back into plain lists.  For every where_fin
the plain-list state *before* the call is pushed through a reference written from the statement (group the
evaluations by p, keep a group iff it holds exactly one evaluation of every l-level present, then drop / truncate
by n) and compared with the plain-list state *after* the call: evaluations kept, their lengths, every remaining
cell, and the three parameter tables (exactly the referenced ids, rows unchanged).  raw_learners is recomputed
from the interaction rows in Fraction arithmetic; moving_average is compared with its textbook definitions.

Chains also hold where() on the columns of the interactions table (index, reward, a second y column; by value, list, range,
set operator or predicate, alone, two at once, next to an id selection, or as filter_int(row predicate)): such a step keeps
some rows of some evaluations and none of others, so the evaluations that survive are not a union of whole environments /
learners / evaluators.  After it the invariants are asserted (rows kept are rows of the input in their order, cell for cell;
no dangling id; no parameter row left without an interaction when the input had none), and the chain goes on from there.

Histories on ONE object are part of the input space: a notebook asks the same Result raw_learners(x='index'), then raw_learners(x=<parameter>),
then where_fin(...), ...  About 45% of the raw_learners steps are runs of 2-3 questions to the same object (mostly the same (l, p), the kind of x
alternating, spans differing) and ~10% of the where_fin steps are preceded by other questions whose answers are thrown away.  Every answer is
compared with the history-free reference; an alarm on an object that was asked something before is repeated on a newly built object (same rows,
same chain): when it passes there, the signature names the earlier question (raw_learners/x=parameter/same-result-asked-before=raw_learners(x=index)/...).

where_fin with only l or only p: the other one is the default of the statement (every learner / environments); such a call is asserted like the
call with the default written out, and an alarm that disappears when it is written out is reported as where_fin/{l|p}-default/mode=...
where_fin(n) alone on a Result that holds never-evaluated learners / environments must not leave their parameter rows behind.

Column NAMES are part of the input space: in ~40% of the cases parameter columns carry names that contain / start with /
end with / are a prefix of / differ only by case from the names coba itself tests for ('index', 'reward', the three ids,
'full_name', 'family', the 'x' column of raw_learners, the second y column), and l / p / x name these columns.  The reference
only ever looks columns up by exact name, so a name must not change what is computed.  A violation in such a case is run
again with plain names: when it disappears the signature names the role and the special name (<op>/x-name~index/mode=...).
"""
from fractions import Fraction

ID    = "C18"
LEVEL = "exploration"
RULE  = ("seeded Results (1-6 environments, 1-5 learners, 1-3 evaluators; missing-triple pattern x ragged-length "
         "pattern x parameter-value kinds incl. duplicates, unsortable mixes, tuples, None/Missing, frozensets) built "
         "through Result(rows), Result(Tables), TransactionResult or a real Experiment, then a seeded chain of "
         "where (ids, parameter columns, or interaction columns index/reward/extra by value, list, range, set operator, predicate) "
         "/ where_best / where_fin(n,l,p; also only l, only p, only n) / raw_learners(x,y,l,p,span) on the real object, with runs of 2-3 questions "
         "to the same object (same l,p, index <-> parameter x; where_fin preceded by discarded questions) and learners / environments that were "
         "never evaluated; one case = one "
         "oracle evaluation of where_fin, raw_learners or moving_average; distinct & non-trivial = distinct (operation, "
         "sizes, missing pattern, length pattern, l/p/n/x/span class, value kinds, chain prefix, (role, special name, relation) of "
         "parameter columns named like 'index'/'reward'/ids/'full_name' (shuffle_index, INDEX, learner, reward2, ...)) with >= 2 learners and "
         ">= 2 environments holding interactions (moving_average: distinct (length class, span class, weighting))")
PLAN  = {"quick":    {"shards": 16, "cases": 16000,  "timeout": 600,  "budget_s": 80},
         "thorough": {"shards": 16, "cases": 200000, "timeout": 3000, "budget_s": 840}}
REQUIRED = ["oracle.where_fin", "oracle.where_fin.exact", "oracle.where_fin.group-dropped", "oracle.where_fin.truncated",
            "oracle.where_fin.short-dropped", "oracle.where_fin.dup-level-group", "oracle.where_fin.chained",
            "oracle.integrity", "oracle.integrity.after-where", "oracle.integrity.after-where_best",
            "oracle.integrity.after-where.interaction-column", "oracle.integrity.after-where.interaction-column.evaluation-removed",
            "oracle.integrity.after-where.interaction-column.evaluation-removed.input-consistent",
            "oracle.integrity.after-where.interaction-column.id-removed.kept-evaluations-equal-table-rows",
            "oracle.raw_learners", "oracle.raw_learners.index", "oracle.raw_learners.param-x", "oracle.raw_learners.cells",
            "oracle.where_fin.near-special-name", "oracle.raw_learners.near-special-name-x", "oracle.raw_learners.near-special-name-x.ragged",
            "oracle.raw_learners.near-index-name-x.ragged", "oracle.raw_learners.near-special-name-lp",
            "oracle.raw_learners.asked-before", "oracle.raw_learners.asked-before.same-lp-other-x-kind.ragged.index-after-parameter",
            "oracle.raw_learners.asked-before.same-lp-other-x-kind.ragged.parameter-after-index", "oracle.where_fin.asked-before",
            "oracle.where_fin.l-default", "oracle.where_fin.p-default", "oracle.integrity.after-where_fin.no-pairing.input-unreferenced",
            "oracle.integrity.after-where_fin.no-pairing.input-unreferenced.n=int.nothing-dropped",
            "oracle.integrity.after-where_fin.no-pairing.input-unreferenced.n=min.nothing-dropped",
            "oracle.moving_average", "oracle.moving_average.sliding", "oracle.moving_average.exp",
            "oracle.moving_average.weighted", "build.experiment", "build.transactions"]
ASSUMPTIONS = [
    "raw_learners is always given l and p; where_fin with only one of l / p said is held to the statement's defaults (compared levels: "
    "every learner = 'learner_id'; pairing groups: environments = 'environment_id'); where_fin(n) with neither (coba pairs nothing then, "
    "its own tests pin that) is checked for lengths, unchanged values, no dangling id and -- whether or not the input already held "
    "never-evaluated learners / environments -- no parameter row left unreferenced; where_fin() that asks for nothing is not generated",
    "a Result is asked several questions one after the other (raw_learners with the other kind of x / another span, where_fin whose answer "
    "is thrown away): every asserted answer is compared with the same history-free reference, so nothing is demanded of the order",
    "ids are ints; an evaluation's index column is 1..N at construction (what experiments and the log reader write; a hand-made Result whose "
    "index starts at 0 or has holes is not generated: coba cuts by index value and the statement does not say what 'length' is there); chains use where() on ids / "
    "parameter columns with =, !=, in, on index with <=, and on interaction columns (index, reward, extra) with a value, a list, "
    "=, !=, <, <=, >, >=, in, !in or a predicate; the latter can leave evaluations whose index column is no longer 1..N: from "
    "then on where_fin with n given is only checked for the invariants (surviving rows are input rows, cell for cell; no dangling "
    "id) because the statement does not define the 'length' of such an evaluation, raw_learners(x='index') is not evaluated, "
    "and where_fin(None,l,p) / raw_learners(x=parameter) are checked as usual",
    "when n=k and a group that is complete on the input holds an evaluation shorter than k, the statement does not say whether "
    "the rest of that group survives: only the weak reading is asserted there (survivors are input evaluations of length >= k "
    "cut to k, and every surviving p-group holds exactly one evaluation for every level that survives)",
    "parameter column names are distinct across the environment / learner / evaluator tables and never EQUAL a name coba reserves "
    "(index, reward, extra, the ids, full_name, x) -- they may contain, extend, abbreviate or re-case such a name; x=['index'] "
    "(the interaction index inside a list) is not asserted; NaN is not used as a parameter "
    "value; the l-values never equal the string 'x'; full_name labels are read from the real Result (only their being "
    "one-to-one with learner_id is relied upon)",
    "where / where_best inside a chain are only checked for the invariants (subset of evaluations, unchanged cells, referential "
    "integrity); an exception raised by them ends the chain without an alarm",
    "moving_average: numeric values of magnitude <= 1e3, span None or a positive int, weights None, 'exp' (with an int span) or "
    "strictly positive; absolute tolerance 1e-9 x max(1,|values|)",
    "plots, confidence intervals and log messages are out of scope",
]

TOL = 1e-9
ID_COLS = ("environment_id", "learner_id", "evaluator_id")

# ------------------------------------------------------------------------------------------ value encoding (JSON-native specs)
def enc(v):
    from coba.results.core import Missing
    if v is Missing: return {"t": "missing"}
    if isinstance(v, tuple): return {"t": "tuple", "v": [enc(x) for x in v]}
    if isinstance(v, frozenset): return {"t": "fset", "v": sorted(v)}
    return v
def dec(v):
    from coba.results.core import Missing
    if isinstance(v, dict):
        if v["t"] == "missing": return Missing
        if v["t"] == "tuple": return tuple(dec(x) for x in v["v"])
        if v["t"] == "fset": return frozenset(v["v"])
    return v

POOLS = {
    "int":     [0, 1, 2],
    "str":     ["a", "b", "c"],
    "float":   [0.5, 1.5, 2.5],
    "mixnum":  [1, 1.0, True, 2, 2.0],              # equal under == and hash: one group
    "tuple":   [(1, 2), (1, 3), ("a",), (2,)],
    "none":    [None, 1, 2],                        # None next to ints: sorting the keys raises
    "mixed":   ["a", 3, (1,), 2.5],                 # unsortable
    "fset":    [frozenset([1]), frozenset([2]), frozenset([3]), frozenset([1, 2])],  # sortable without error, but only partially ordered
    "missing": ["<M>", 1, 2],                       # "<M>" is replaced by Missing
    "unique":  None,                                # one distinct string per row
}
KINDS_COMMON = ["int", "int", "int", "str", "str", "float", "mixnum", "tuple", "none", "mixed", "missing", "unique", "fset"]

def _draw_col(rng, kind, n, tag):
    from coba.results.core import Missing
    if kind == "unique": return [f"{tag}{i}" for i in range(n)]
    pool = POOLS[kind]
    k = rng.randint(1, len(pool))
    sub = rng.sample(pool, k)
    out = [rng.choice(sub) for _ in range(n)]
    return [Missing if isinstance(v, str) and v == "<M>" else v for v in out]

# ------------------------------------------------------------------------------------------ generators
def gen_lp(rng, cols, n_vals=1, natural=0.0):
    """an (l, p) pair over the parameter columns present; mostly learner-ish l and environment-ish p"""
    ec, lc, vc = cols["env"], cols["lrn"], cols["val"]
    if cols.get("focus") and rng.random() < .6:    # the columns holding the unusual value kinds
        r = rng.random()
        pid = ["environment_id", "evaluator_id"] if n_vals > 1 else "environment_id"
        if   r < .35: return "lr", pid                                                   # unusual values as levels only
        elif r < .65: return rng.choice(["learner_id", "family", ["family", "lr"]]), "data"   # ... as pairing keys only
        else:         return rng.choice(["lr", ["family", "lr"]]), rng.choice(["data", ["shuf", "data"]])
    if rng.random() < natural:
        l = rng.choice(["learner_id", "learner_id", "full_name", ["learner_id"]])
        p = "environment_id"
        if n_vals > 1: p = rng.choice([["environment_id", "evaluator_id"], ["evaluator_id", "environment_id"], ["environment_id", vc[-1]]])
        return l, p
    l, p = _gen_lp(rng, ec, lc, vc)
    if n_vals > 1 and rng.random() < .5:           # several evaluators: pair per evaluator, or compare per evaluator
        if rng.random() < .7: p = ([p] if isinstance(p, str) else list(p)) + ["evaluator_id"]
        else:                 l = ([l] if isinstance(l, str) else list(l)) + ["evaluator_id"]
    return l, p

def _gen_lp(rng, ec, lc, vc):
    r = rng.random()
    if r < .05:      # the symmetric question: compare environments paired over learners
        return rng.choice(ec), rng.choice(lc)
    r = rng.random()
    if   r < .34: l = "learner_id"
    elif r < .42: l = "full_name"
    elif r < .78: l = rng.choice([c for c in lc if c != "learner_id"] or ["learner_id"])
    elif r < .86: l = [rng.choice(lc)]
    elif r < .94: l = rng.sample(lc, min(2, len(lc)))
    else:         l = [rng.choice(lc), rng.choice(vc)]
    r = rng.random()
    if   r < .30: p = "environment_id"
    elif r < .72: p = rng.choice([c for c in ec if c != "environment_id"] or ["environment_id"])
    elif r < .80: p = [rng.choice(ec)]
    elif r < .90: p = rng.sample(ec, min(2, len(ec)))
    else:         p = [rng.choice(ec), rng.choice(vc)]
    return l, p

def gen_n(rng, lengths):
    r = rng.random()
    if r < .30: return None
    if r < .55 or not lengths: return "min"
    return max(1, rng.choice(lengths) + rng.choice([-1, 0, 0, 0, 1]))

def _int_arg(rng, c, lengths, info):
    """the argument of where(<interaction column>=...): a value, a list, a range, a set operator or a predicate ({'pred': [op, value]})"""
    if c == "index":
        k = max(1, rng.choice(lengths or [2]) + rng.choice([-1, 0, 0, 1]))
        some = list(range(k, k + rng.randint(1, 3)))
        return rng.choice([k, some, {"=": k}, {">=": k}, {">=": k}, {">": k}, {"<": k}, {"in": some}, {"!in": list(range(1, k))}, {"!=": k},
                           {"pred": [">=", k]}, {"pred": ["in", some]}])
    kind, seen = info
    if kind == "binary":
        v = rng.choice([0, 1])
        return rng.choice([v, [v], {"=": v}, {"!=": v}, {">=": 1}, {">": 0}, {"<": 1}, {"<=": 0}, {"in": [v]}, {"pred": ["==", v]}, {"pred": [">=", 1]}])
    if seen:
        few = rng.sample(seen, min(len(seen), rng.randint(1, 4)))
        t = rng.choice(seen)
    else:
        few, t = [0.5], rng.choice([.2, .5, .8])
    return rng.choice([few[0], few, {"in": few}, {"!in": few}, {">=": t}, {">": t}, {"<=": t}, {"<": t}, {">=": t}, {"<=": t},
                       {"pred": [">=", t]}, {"pred": ["<=", t]}, {"pred": ["in", few]}])

def gen_int_where(rng, lengths, ycols, lids):
    """where on a column of the interactions table (index, reward, ...): keeps some rows of some evaluations and none of others"""
    c = rng.choice(["index", "index"] + sorted(ycols) * 2)
    kw = {c: _int_arg(rng, c, lengths, ycols.get(c))}
    op = {"op": "where", "kw": kw}
    r = rng.random()
    if r < .10:                                      # a second interaction column in the same call
        c2 = rng.choice([k for k in ["index"] + sorted(ycols) if k != c])
        kw[c2] = _int_arg(rng, c2, lengths, ycols.get(c2))
    elif r < .18:                                    # together with a selection of learners
        kw["learner_id"] = rng.sample(lids, rng.randint(1, len(lids)))
    elif r < .40 and isinstance(kw[c], dict) and "pred" in kw[c]:
        op["via"] = "filter_int"                     # the predicate is given the whole interaction row
    return op

def gen_ops(rng, cols, eids, lids, vids, lengths, pools, ycols=None):
    ops = []
    nv = len(vids)
    def where_op():
        if ycols and rng.random() < .25: return gen_int_where(rng, lengths, ycols, lids)
        r = rng.random()
        if   r < .25: return {"op": "where", "kw": {"environment_id": rng.sample(eids, rng.randint(1, len(eids)))}}
        elif r < .45: return {"op": "where", "kw": {"learner_id": {"!=": rng.choice(lids)}}}
        elif r < .55: return {"op": "where", "kw": {"evaluator_id": rng.choice(vids)}}
        elif r < .75 and lengths: return {"op": "where", "kw": {"index": {"<=": max(1, rng.choice(lengths) + rng.choice([-2, -1, 0]))}}}
        else:
            cands = [(c, vs) for c, vs in pools.items() if vs]
            if not cands: return {"op": "where", "kw": {"learner_id": rng.sample(lids, rng.randint(1, len(lids)))}}
            c, vs = rng.choice(cands)
            return {"op": "where", "kw": {c: {rng.choice(["=", "!="]): rng.choice(vs)}}}
    def fin_op():
        l, p = gen_lp(rng, cols, nv, .25)
        r = rng.random()
        if r < .09: return {"op": "where_fin", "n": gen_n(rng, lengths) or "min", "l": None, "p": None}
        op = {"op": "where_fin", "n": gen_n(rng, lengths), "l": l, "p": p, "alias": rng.random() < .3}
        if r < .19:                                      # only one of the two is said: the other one is the default of the statement
            if rng.random() < .5: op["p"] = None         # "by default environments"
            else:                 op["l"] = None         # "by default every learner"
        elif r < .30:                                    # the same object is asked something else first (the answer is thrown away)
            op["before"] = [other_question(op["l"], op["p"]) for _ in range(rng.choice([1, 1, 2]))]
        return op
    def other_question(l, p):
        """another where_fin / raw_learners question, mostly about the same (l, p)"""
        if rng.random() < .3: l, p = gen_lp(rng, cols, nv, .5)
        if rng.random() < .5: return {"op": "where_fin", "n": gen_n(rng, lengths), "l": l, "p": p}
        x = "index" if rng.random() < .5 else rng.choice(cols["env"])
        return {"op": "raw_learners", "x": x, "y": "reward", "l": l, "p": p, "span": rng.choice([None, 1, 2])}
    def best_op():
        l = rng.choice([c for c in cols["lrn"] if c != "learner_id"] or ["learner_id"])
        p = rng.choice(cols["env"])
        return {"op": "where_best", "l": l, "p": p, "n": rng.choice([None, None, 1, 3])}
    def raw_op():
        l, p = gen_lp(rng, cols, nv, .6)
        r = rng.random()
        if   r < .5:  x = "index"
        elif r < .6 and cols.get("focus"): x = "data"
        elif r < .8:  x = rng.choice(cols["env"])
        elif r < .9:  x = rng.sample(cols["env"], min(2, len(cols["env"])))
        else:         x = rng.choice(cols["lrn"] + cols["val"])
        span = rng.choice([None, None, 1, 2, 3, 5, 40])
        return {"op": "raw_learners", "x": x, "y": rng.choice(["reward", "reward", "extra"]), "l": l, "p": p, "span": span}
    def raw_ops():
        """one question, or several questions to the SAME Result object one after the other (what a notebook does): mostly the same
        (l, p) and the other kind of x (interaction index <-> parameter columns), so that whatever one answer leaves behind on the object
        (memoised finishing step, cached groups, ...) is what the next question would find"""
        first = raw_op()
        out = [first]
        if rng.random() < .45:
            for _ in range(rng.choice([1, 1, 2])):
                nxt = raw_op()
                if rng.random() < .75:
                    nxt["l"], nxt["p"] = first["l"], first["p"]
                    if (out[-1]["x"] == "index") == (nxt["x"] == "index") and rng.random() < .8:
                        nxt["x"] = rng.choice(cols["env"]) if out[-1]["x"] == "index" else "index"
                out.append(nxt)
        return out
    for _ in range(rng.choice([0, 0, 0, 1, 1, 2])):
        r = rng.random()
        ops.append(where_op() if r < .55 else best_op() if r < .75 else fin_op())
    if rng.random() < .6: ops.extend(raw_ops())
    ops.append(fin_op())
    if rng.random() < .25: ops.extend(rng.choice([lambda: [fin_op()], raw_ops])())
    return ops

def gen_ma(rng):
    n = rng.choice([0, 1, 2, 3, 5, 8, 13, 30])
    kind = rng.choice(["binary", "unit", "wide", "const", "ints"])
    if   kind == "binary": vals = [rng.randint(0, 1) for _ in range(n)]
    elif kind == "unit":   vals = [round(rng.random(), 4) for _ in range(n)]
    elif kind == "wide":   vals = [round(rng.uniform(-1000, 1000), 3) for _ in range(n)]
    elif kind == "const":  vals = [0.25] * n
    else:                  vals = [rng.randint(-5, 5) for _ in range(n)]
    wk = rng.choice(["none", "none", "exp", "list"])
    span = rng.choice([None, 1, 2, 3, 4, max(1, n - 1), max(1, n), n + 1, 100])
    if wk == "exp":
        span = span or rng.choice([1, 2, 5]); weights = "exp"
    elif wk == "list":
        weights = [rng.choice([1, 2, 0.5, 3, 0.25]) for _ in range(n)]
    else: weights = None
    return {"values": vals, "span": span, "weights": weights}

def gen_rewards(rng, n, kind):
    if kind == "binary": return [rng.randint(0, 1) for _ in range(n)]
    if kind == "unit":   return [round(rng.random(), 3) for _ in range(n)]
    return [round(rng.uniform(-3, 3), 2) for _ in range(n)]

def gen_case(rng):
    if rng.random() < .012: return gen_experiment_case(rng)
    nE = rng.choice([1, 2, 2, 3, 3, 4, 4, 5, 6]); nL = rng.choice([1, 2, 2, 2, 3, 3, 4, 5]); nV = rng.choice([1, 1, 1, 1, 1, 2, 2, 3])
    focus = rng.random() < .3         # both 'data' and 'lr' hold one unusual kind of value, and l / p / x prefer these columns
    if focus and rng.random() < .5: nE, nL = max(nE, 3), max(nL, 3)
    eids = sorted(rng.sample(range(0, 9), nE)); lids = sorted(rng.sample(range(0, 7), nL)); vids = sorted(rng.sample(range(0, 4), nV))
    build = rng.choice(["rows", "rows", "tables", "transactions"])
    ekinds = {"shuf": rng.choice(["int", "int", "int", "str", "mixnum"]), "data": rng.choice(KINDS_COMMON)}
    lkinds = {"family": rng.choice(["str", "str", "int"]), "lr": rng.choice(KINDS_COMMON)}
    if focus: ekinds["data"] = lkinds["lr"] = rng.choice(["fset", "fset", "mixed", "none", "tuple", "mixnum", "missing"])
    vkinds = {"vkind": rng.choice(["str", "int", "unique"])}
    if rng.random() < .3: ekinds["etag"] = "unique"
    def table(ids, idcol, kinds, tag):
        cols = [idcol] + list(kinds)
        data = {c: _draw_col(rng, k, len(ids), f"{tag}{c[0]}") for c, k in kinds.items()}
        return {"cols": cols, "rows": [[i] + [enc(data[c][j]) for c in kinds] for j, i in enumerate(ids)]}
    envs, lrns, vals = table(eids, "environment_id", ekinds, "e"), table(lids, "learner_id", lkinds, "l"), table(vids, "evaluator_id", vkinds, "v")
    # which triples exist
    pattern = rng.choice(["full", "full", "full", "random", "random", "random", "sparse-learner", "disjoint", "sparse-env"])
    q = rng.choice([.6, .8, .9])
    present = []
    for e in eids:
        for l in lids:
            for v in vids:
                if   pattern == "full":           ok = True
                elif pattern == "random":         ok = rng.random() < q
                elif pattern == "sparse-learner": ok = (l != lids[-1]) or rng.random() < .4
                elif pattern == "sparse-env":     ok = (e != eids[-1]) or rng.random() < .4
                else:                             ok = (eids.index(e) % max(1, min(2, nL))) == (lids.index(l) % max(1, min(2, nL)))
                if ok: present.append((e, l, v))
    idle = []
    if rng.random() < .22:            # a learner and / or an environment that was never evaluated at all (failed everywhere, never loaded): its
        if nL >= 2 and rng.random() < .7: idle.append((1, rng.choice(lids)))          # parameter row is in the log, no interaction refers to it
        if nE >= 2 and (not idle or rng.random() < .4): idle.append((0, rng.choice(eids)))
        present = [t for t in present if all(t[k] != i for k, i in idle)]
    lpat = rng.choice(["equal", "equal", "one-short", "two-values", "ragged", "ragged", "ragged-zero"])
    base = rng.choice([1, 2, 3, 4, 6, 10, 30]); alt = rng.choice([1, 2, 3, 5, 8])
    rk = rng.choice(["binary", "unit", "real"])
    evals = []
    short = rng.randrange(len(present)) if present else 0
    for i, (e, l, v) in enumerate(present):
        if   lpat == "equal":      n = base
        elif lpat == "one-short":  n = max(1, base - rng.randint(1, 3)) if i == short else base
        elif lpat == "two-values": n = rng.choice([base, alt])
        elif lpat == "ragged":     n = rng.randint(1, 12)
        else:                      n = rng.choice([0, 0, 1, 2, 3, 7, 30])
        evals.append([e, l, v, gen_rewards(rng, n, rk), gen_rewards(rng, n, "unit")])
    orphans = bool(idle) or rng.random() < .5       # parameter rows for ids that were never evaluated (what an experiment log holds)
    order = rng.random() < .5         # shuffled row order at construction
    cols = {"env": envs["cols"], "lrn": lrns["cols"], "val": vals["cols"], "focus": focus}
    lengths = sorted({len(ev[3]) for ev in evals if ev[3]})
    pools = {}
    for t, kinds in ((envs, ekinds), (lrns, lkinds), (vals, vkinds)):
        for j, c in enumerate(t["cols"][1:], 1):
            if kinds[c] in ("int", "str", "float", "unique"): pools[c] = sorted({r[j] for r in t["rows"]}, key=repr)
    def seen(j):
        vs = sorted({x for ev in evals for x in ev[j]})
        return vs if len(vs) <= 12 else rng.sample(vs, 12)
    ycols = {"reward": [rk, seen(3)], "extra": ["unit", seen(4)]}
    spec = {"build": build, "envs": envs, "lrns": lrns, "vals": vals, "evals": evals, "orphans": orphans, "shuffle": order,
            "shuffle_seed": rng.randrange(1 << 30),
            "meta": {"pattern": pattern, "lpat": lpat, "ekinds": ekinds, "lkinds": lkinds, "vkinds": vkinds},
            "ops": gen_ops(rng, cols, eids, lids, vids, lengths, pools, ycols),
            "ma": [gen_ma(rng) for _ in range(2)]}
    if rng.random() < .4: spec = gen_names(rng, spec)
    return spec

# ------------------------------------------------------------------------------------------ column NAMES are part of the input space
# the names coba itself tests for / writes (ids, 'index', 'reward', the label columns, the 'x' column of raw_learners, our second y column)
SPECIAL = ["index", "reward", "learner_id", "environment_id", "evaluator_id", "full_name", "family", "extra", "x"]
FILL    = ["shuffle", "data", "arm", "seed", "n", "my"]
def near_name(rng, tok):
    """a parameter column name that contains / starts with / ends with / is a prefix of / differs only by case from `tok`"""
    w = rng.choice(FILL)
    return rng.choice([f"{w}_{tok}", f"{w}_{tok}", f"{tok}_{w}", f"{tok}_{w}", "re" + tok, tok + "s", tok + "2", "_" + tok, tok + "_", f"{w}{tok}{w}",
                       tok.upper(), tok.capitalize(), tok[:-1], tok[:max(2, len(tok) // 2)], tok.replace("_", ""), tok.split("_")[0]])

def rename_spec(spec, mapping):
    """the same case with parameter columns renamed (cells, evaluations, operations untouched)"""
    if not mapping: return spec
    f = lambda c: mapping.get(c, c)
    g = lambda c: None if c is None else f(c) if isinstance(c, str) else [f(k) for k in c]
    out = dict(spec)
    for t in ("envs", "lrns", "vals"): out[t] = {"cols": [f(c) for c in spec[t]["cols"]], "rows": spec[t]["rows"]}
    ops = []
    for op in spec["ops"]:
        op = dict(op)
        for k in ("l", "p", "x"):
            if k in op: op[k] = g(op[k])
        if "kw" in op: op["kw"] = {f(c): a for c, a in op["kw"].items()}
        if "before" in op: op["before"] = [dict(q, **{k: g(q[k]) for k in ("l", "p", "x") if k in q}) for q in op["before"]]
        ops.append(op)
    out["ops"] = ops
    return out

def gen_names(rng, spec):
    """renames some parameter columns to names close to the special ones; spec['names'] = {new name: [old name, special name]}"""
    canon = [c for t in ("envs", "lrns", "vals") for c in spec[t]["cols"][1:]]
    taken = set(SPECIAL) | set(canon)
    focus_tok = rng.choice(SPECIAL[:5] + ["index", "index"]) if rng.random() < .6 else None
    mapping, names = {}, {}
    for c in canon:
        if rng.random() < (.35 if c == "family" else .7):
            tok = focus_tok if focus_tok and rng.random() < .7 else rng.choice(SPECIAL)
            for _ in range(20):
                new = near_name(rng, tok)
                if new and new not in taken: break
            else: continue
            taken.add(new); mapping[c] = new; names[new] = [c, tok]
    if not mapping: return spec
    out = rename_spec(spec, mapping)
    out["names"] = names
    ecols = [c for c in out["envs"]["cols"][1:] if c in names]
    allc  = [c for c in names]
    for op in out["ops"]:              # the renamed columns are what these cases are about: ask for them as x more often
        if op["op"] == "raw_learners" and rng.random() < .6:
            c = rng.choice(ecols) if ecols and rng.random() < .7 else rng.choice(allc)
            op["x"] = c if rng.random() < .75 else [c]
    return out

def neutral_spec(spec, only=None):
    """the case with the renamed columns (all, or just `only`) given their plain names back"""
    names = spec.get("names") or {}
    back = {new: old for new, (old, _) in names.items() if only is None or new in only}
    out = rename_spec(spec, back)
    out["names"] = {new: v for new, v in names.items() if new not in back}
    return out

def op_names(spec, op):
    """[(role, column, special name)] for the renamed columns an operation names"""
    names = spec.get("names") or {}
    out = []
    for k in ("x", "l", "p"):
        v = op.get(k)
        for c in ([] if v is None else [v] if isinstance(v, str) else v):
            if c in names: out.append((k, c, names[c][1]))
    for c in op.get("kw", {}):
        if c in names: out.append(("where", c, names[c][1]))
    return out

EXP_ENV_COLS = ["environment_id", "seed", "shuffle_seed", "take"]
EXP_LRN_COLS = ["learner_id", "family", "limit"]
EXP_VAL_COLS = ["evaluator_id", "eval_type"]
def gen_experiment_case(rng):
    seeds = rng.sample([1, 2, 3], rng.randint(1, 2)); nshuf = rng.randint(1, 3)
    takes = [rng.choice([3, 5, 8]) for _ in range(len(seeds) * nshuf)]
    learners = [["random", rng.choice([1, 2])] for _ in range(rng.randint(1, 2))] + [["limit", rng.choice([2, 4, 6, 100])] for _ in range(rng.randint(1, 2))]
    cols = {"env": EXP_ENV_COLS, "lrn": EXP_LRN_COLS, "val": EXP_VAL_COLS}
    n_e = len(takes)
    ops = gen_ops(rng, cols, list(range(n_e)), list(range(len(learners))), [0], sorted(set(takes)), {"seed": seeds, "take": sorted(set(takes))},
                  {"reward": ["unit", []]})
    for op in ops:                                   # real results carry no 'extra' column
        if op.get("y") == "extra": op["y"] = "reward"
    return {"build": "experiment", "seeds": seeds, "nshuf": nshuf, "takes": takes, "learners": learners,
            "meta": {"pattern": "experiment", "lpat": "takes", "ekinds": {}, "lkinds": {}, "vkinds": {}},
            "ops": ops, "ma": [gen_ma(rng)]}

# ------------------------------------------------------------------------------------------ builders (real coba objects)
class LimitLearner:
    """a learner that raises once it has predicted `limit` times: its evaluations on longer environments are lost"""
    def __init__(self, limit): self._limit, self._n = limit, 0
    @property
    def params(self): return {"family": "limit", "limit": self._limit}
    def predict(self, context, actions):
        self._n += 1
        if self._n > self._limit: raise Exception("limit reached")
        return [1 / len(actions)] * len(actions)
    def learn(self, *args, **kwargs): pass

_SETUP = False
def _setup():
    global _SETUP
    if _SETUP: return
    from coba.context import CobaContext, NullLogger
    CobaContext.logger = NullLogger()
    _SETUP = True

def build(spec):
    import random
    from coba.results.core import Result, Table, TransactionResult, Missing
    _setup()
    if spec["build"] == "experiment":
        from coba.environments import Environments
        from coba.experiments import Experiment
        from coba.learners import RandomLearner
        envs, i = [], 0
        for s in spec["seeds"]:
            for j in range(spec["nshuf"]):
                envs.extend(Environments.from_linear_synthetic(10, n_actions=2, n_context_features=1, n_action_features=0, seed=s).shuffle(seed=j).take(spec["takes"][i]))
                i += 1
        lrns = [RandomLearner(seed=a) if k == "random" else LimitLearner(a) for k, a in spec["learners"]]
        return Experiment(Environments(envs), lrns).run(quiet=True)
    rnd = random.Random(spec["shuffle_seed"])
    used = {0: {e[0] for e in spec["evals"] if e[3]}, 1: {e[1] for e in spec["evals"] if e[3]}, 2: {e[2] for e in spec["evals"] if e[3]}}
    tabs = []
    for k, name in enumerate(("envs", "lrns", "vals")):
        t = spec[name]
        rows = [[dec(c) for c in r] for r in t["rows"] if spec["orphans"] or r[0] in used[k]]
        if spec["shuffle"]: rnd.shuffle(rows)
        tabs.append((t["cols"], rows))
    if spec["build"] == "transactions":
        trx = [["version", 4], ["experiment", {"n": 1}]]
        for tag, (cols, rows) in zip("ELV", tabs):
            for r in rows:
                trx.append([tag, r[0], {c: v for c, v in zip(cols[1:], r[1:]) if v is not Missing}])
        ev = list(spec["evals"])
        if spec["shuffle"]: rnd.shuffle(ev)
        for e, l, v, rw, ex in ev:
            trx.append(["I", [e, l, v], {"_packed": {"reward": list(rw), "extra": list(ex)}} if rw else {}])
        return TransactionResult().filter(trx)
    icols = ["environment_id", "learner_id", "evaluator_id", "index", "reward", "extra"]
    irows = [[e, l, v, i + 1, rw[i], ex[i]] for e, l, v, rw, ex in spec["evals"] for i in range(len(rw))]
    if spec["shuffle"]: rnd.shuffle(irows)
    if spec["build"] == "rows":
        return Result(*[[list(c)] + r for c, r in tabs], [icols] + irows)
    # "tables": dict rows, Missing cells simply absent
    out = []
    for cols, rows in tabs:
        t = Table(columns=cols)
        if rows: t.insert([{c: v for c, v in zip(cols, r) if v is not Missing or c == cols[0]} for r in rows])
        out.append(t)
    it = Table(columns=icols)
    if irows: it.insert({c: [r[j] for r in irows] for j, c in enumerate(icols)})
    return Result(*out, it)

# ------------------------------------------------------------------------------------------ plain-list state of a real Result
class State:
    __slots__ = ("par", "cols", "evals", "icols", "dup_ids", "labels")

def extract(R):
    """reads the four real tables into plain dicts/lists (nothing of coba survives in the returned object but the cells)"""
    s = State()
    s.par, s.cols, s.dup_ids = {}, {}, []
    for name, t, idc in (("env", R.environments, "environment_id"), ("lrn", R.learners, "learner_id"), ("val", R.evaluators, "evaluator_id")):
        rows = list(t.to_dicts())
        d = {}
        for r in rows:
            if r[idc] in d: s.dup_ids.append((name, r[idc]))
            d[r[idc]] = r
        s.par[name] = d
        s.cols[name] = tuple(t.columns)
    it = R.interactions
    s.icols = tuple(it.columns)
    s.evals = {}
    if len(it):
        for r in it.to_dicts():
            s.evals.setdefault((r["environment_id"], r["learner_id"], r["evaluator_id"]), []).append(r)
    s.labels = {lid: d.get("full_name") for lid, d in R._lrn_cache.items()}
    return s

def getter(state, col):
    """value of one l/p/x column for an evaluation (e,l,v) -- a plain join of the parameter rows"""
    if col in state.cols["env"]: return lambda ev: state.par["env"][ev[0]][col]
    if col in state.cols["lrn"]: return lambda ev: state.par["lrn"][ev[1]][col]
    if col == "full_name":        return lambda ev: state.labels[ev[1]]
    if col in state.cols["val"]: return lambda ev: state.par["val"][ev[2]][col]
    raise KeyError(col)

def keyer(state, cols):
    if isinstance(cols, str): return getter(state, cols)
    gs = [getter(state, c) for c in cols]
    return lambda ev: tuple(g(ev) for g in gs)

def _cell_eq(a, b):
    if a is b: return True
    if isinstance(a, float) and isinstance(b, float) and a != a and b != b: return True
    return type(a) is type(b) and a == b

def _row_eq(r1, r2):
    return r1.keys() == r2.keys() and all(_cell_eq(r1[k], r2[k]) for k in r1)

# ------------------------------------------------------------------------------------------ the reference (from the statement)
def ref_pairing(state, l, p):
    """returns (kept evaluations, info).  A p-group is kept iff it holds exactly one evaluation of every l-level present."""
    L, P = keyer(state, l), keyer(state, p)
    evs = list(state.evals)
    levels = {}
    for ev in evs: levels.setdefault(L(ev), None)
    groups = {}
    for ev in evs: groups.setdefault(P(ev), []).append(ev)
    kept, info = [], {"dup_level_group": False, "dropped_groups": 0, "n_levels": len(levels), "n_groups": len(groups), "count_eq_but_incomplete": False}
    for g in groups.values():
        c = {}
        for ev in g: c[L(ev)] = c.get(L(ev), 0) + 1
        if any(k > 1 for k in c.values()): info["dup_level_group"] = True
        complete = len(c) == len(levels) and all(k == 1 for k in c.values())
        if len(g) == len(levels) and not complete: info["count_eq_but_incomplete"] = True
        if complete: kept.extend(g)
        else: info["dropped_groups"] += 1
    return kept, info

def ref_where_fin(state, n, l, p):
    """-> (expected {ev: rows}, info).  info['ambiguous'] marks the n=k corner the statement leaves open."""
    if l is None and p is None: kept, info = list(state.evals), {"dup_level_group": False, "dropped_groups": 0, "count_eq_but_incomplete": False}
    else: kept, info = ref_pairing(state, l, p)
    info["ambiguous"] = False; info["truncated"] = 0; info["short_dropped"] = 0
    out = {}
    if n is None:
        for ev in kept: out[ev] = state.evals[ev]
    elif n == "min":
        m = min((len(state.evals[ev]) for ev in kept), default=0)
        for ev in kept:
            out[ev] = state.evals[ev][:m]
            if len(state.evals[ev]) > m: info["truncated"] += 1
    else:
        for ev in kept:
            rows = state.evals[ev]
            if len(rows) < n: info["short_dropped"] += 1
            else:
                out[ev] = rows[:n]
                if len(rows) > n: info["truncated"] += 1
        if info["short_dropped"] and not (l is None and p is None): info["ambiguous"] = True
    return out, info

def key_order_class(state, l, p):
    """how the (p,l) keys behave under sorted(): total / unsortable (TypeError) / partial (frozensets)"""
    try:
        L, P = keyer(state, l), keyer(state, p)
        ks = [(P(ev), L(ev)) for ev in state.evals]
    except Exception: return "total"
    def has_fs(v): return isinstance(v, frozenset) or (isinstance(v, tuple) and any(has_fs(x) for x in v))
    if any(has_fs(a) or has_fs(b) for a, b in ks): return "partial-order-keys"
    try: sorted(ks)
    except TypeError: return "unsortable-keys"
    return "total"

def ref_ma(values, span, weights):
    """textbook moving averages in exact arithmetic"""
    V = [Fraction(v) for v in values]
    out = []
    if weights == "exp":
        a = Fraction(2, 1 + span); d = 1 - a
        for t in range(len(V)):
            num = sum(d ** i * V[t - i] for i in range(t + 1)); den = sum(d ** i for i in range(t + 1))
            out.append(num / den)
        return out
    W = [Fraction(w) for w in weights] if weights else [Fraction(1)] * len(V)
    for t in range(len(V)):
        lo = 0 if span is None else max(0, t - span + 1)
        out.append(sum(W[j] * V[j] for j in range(lo, t + 1)) / sum(W[j] for j in range(lo, t + 1)))
    return out

def ref_final(Y, span):
    Yf = [Fraction(v) for v in Y]
    if span == 1: return Yf[-1]
    w = Yf if span is None else Yf[-span:]
    return sum(w) / len(w)

def _close(a, b, scale=1.0):
    if isinstance(a, float) and a != a: return isinstance(b, float) and b != b
    if isinstance(b, float) and b != b: return False
    return abs(float(a) - float(b)) <= TOL * max(1.0, scale)

# ------------------------------------------------------------------------------------------ invariants on every produced Result
def index_gaps(state):
    """some evaluation whose index column is not 1..N (only a where on an interaction column produces that)"""
    return any([r["index"] for r in rows] != list(range(1, len(rows) + 1)) for rows in state.evals.values())

def integrity(state):
    """-> (dangling ids, unreferenced parameter rows)"""
    dangling, unref = [], []
    for k, name in enumerate(("env", "lrn", "val")):
        used = {ev[k] for ev in state.evals}
        have = set(state.par[name])
        if used - have: dangling.append(name)
        if have - used: unref.append(name)
    return dangling, unref

def subset_and_values(before, after, prefix=True):
    """every evaluation of `after` is an evaluation of `before` and holds a prefix of its rows (prefix=False: some of its rows, in
    their order), cell for cell; every parameter row of `after` equals the row of `before`.  -> failure mode or None"""
    for ev, rows in after.evals.items():
        src = before.evals.get(ev)
        if src is None: return "new-evaluation"
        if len(rows) > len(src): return "rows-added"
        if prefix:
            for a, b in zip(rows, src):
                if not _row_eq(a, b): return "value-changed"
        else:
            j = 0
            for a in rows:
                while j < len(src) and not _row_eq(a, src[j]): j += 1
                if j == len(src): return "value-changed"
                j += 1
    for name in ("env", "lrn", "val"):
        for i, r in after.par[name].items():
            src = before.par[name].get(i)
            if src is None: return f"new-{name}-row"
            if not _row_eq(r, src): return f"{name}-row-changed"
    if after.dup_ids: return "duplicate-parameter-row"
    return None

# ------------------------------------------------------------------------------------------ op appliers
_PREDS = {">=": lambda v: (lambda c: c >= v), "<=": lambda v: (lambda c: c <= v), "==": lambda v: (lambda c: c == v),
          "in": lambda v: (lambda c, s=tuple(v): c in s)}
def _where_arg(a):
    if isinstance(a, dict):
        if "pred" in a: return _PREDS[a["pred"][0]](a["pred"][1])
        return dict(a)
    return a

def int_where_cols(state, op):
    """the columns of the interactions table a where names (routed to filter_int)"""
    if op["op"] != "where": return []
    par = set(state.cols["env"]) | set(state.cols["lrn"]) | set(state.cols["val"])
    return [c for c in op["kw"] if c not in par and c in state.icols]

def eff_lp(op):
    """the (l, p) a where_fin call means: when only one of the two is said the other one is the statement's default
    ("pairing groups (by default environments) ... every compared level (by default every learner)"); neither said: no pairing"""
    l, p = op.get("l"), op.get("p")
    if l is None and p is None: return None, None
    return ("learner_id" if l is None else l), ("environment_id" if p is None else p)

def dflt_flag(op):
    if op["op"] != "where_fin" or (op.get("l") is None) == (op.get("p") is None): return ""
    return "/l-default" if op.get("l") is None else "/p-default"

def _q_cls(q):
    """class of a question a Result object was asked: which operation and, for raw_learners, which kind of x"""
    if q["op"] == "raw_learners": return "raw_learners(x=" + ("index" if q["x"] == "index" else "parameter") + ")"
    return f"where_fin(n={_cls_n(q['n'])})"

def ask(R, q):
    """asks the question and throws the answer away (whatever it is, also an exception)"""
    try:
        if q["op"] == "raw_learners": R.raw_learners(x=q["x"], y=q["y"], l=q["l"], p=q["p"], span=q["span"])
        else: R.where_fin(q["n"], q["l"], q["p"])
    except Exception: pass

def fresh_result(spec, applied):
    """the Result an operation is applied to, built anew: same rows, same transformations (`applied`: their positions in the chain), but an
    object nobody asked anything"""
    R = build(spec)
    for i in applied: R = apply_op(R, spec["ops"][i])
    return R

def apply_op(R, op):
    k = op["op"]
    if k == "where":
        kw = {c: _where_arg(a) for c, a in op["kw"].items()}
        if op.get("via") == "filter_int":            # the same selection written as a predicate over whole interaction rows
            (c, f), = kw.items()
            j = list(R.interactions.columns).index(c)
            return R.filter_int(lambda row: f(row[j]))
        return R.where(**kw)
    if k == "where_fin":
        f = R.filter_fin if op.get("alias") else R.where_fin
        if op["l"] is None and op["p"] is not None: return f(op["n"], p=op["p"])      # the argument left out, not passed as None
        if op["p"] is None and op["l"] is not None: return f(op["n"], l=op["l"])
        return f(op["n"], op["l"], op["p"])
    if k == "where_best": return R.where_best(op["l"], op["p"], n=op["n"])
    raise ValueError(k)

def _cls_cols(c):
    if c is None: return "none"
    if isinstance(c, str): return "id" if c in ID_COLS or c == "full_name" else "param"
    return "list" + str(len(c))
def _cls_names(meta, op):
    """structural class of the renamed columns an operation names: ((role, special name, how the name relates to it), ...)"""
    names, out = meta.get("names") or {}, set()
    for k in ("x", "l", "p"):
        v = op.get(k)
        for c in ([] if v is None else [v] if isinstance(v, str) else v):
            if c in names:
                tok = names[c][1]
                rel = ("case" if c.lower() == tok else "contains" if tok in c.lower() else "prefix") + ("" if isinstance(v, str) else "-in-list")
                out.add((k, tok, rel))
    return tuple(sorted(out))
def _cls_n(n): return "none" if n is None else "min" if n == "min" else "int"

# ------------------------------------------------------------------------------------------ the checker
def check_case(spec, ctx=None):
    viol, opv = _check2(spec, ctx)
    if opv and spec.get("names"): opv = flag_names(spec, opv)
    return viol + [(a, b) for _, a, b in opv]

def _check2(spec, ctx=None):
    viol, opv = _check(spec, ctx)
    return viol, flag_defaults(spec, opv)

def flag_defaults(spec, opv):
    """a violation of a where_fin that leaves l or p to its default: the same chain is run with the default written out
    (l='learner_id' / p='environment_id').  When that passes the mechanism is the default itself and there is one signature per failure
    mode (where_fin/p-default/mode=raise:TypeError, .../mode=differs-from-default-written-out); otherwise the default has nothing to
    do with it and the signature is the one the explicit call has"""
    out = []
    for i, sig, what in opv:
        op = spec["ops"][i]
        d = dflt_flag(op)
        if not d or d not in sig: out.append((i, sig, what)); continue
        l, p = eff_lp(op)
        sp = dict(spec, ops=spec["ops"][:i] + [dict(op, l=l, p=p)], ma=[])
        if any(j == i for j, _, _ in _check(sp, None)[1]): out.append((i, sig.replace(d, "", 1), what)); continue
        mode = sig.rpartition("/mode=")[2]
        out.append((i, f"where_fin{d}/mode=" + (mode if mode.startswith("raise:") else "differs-from-default-written-out"),
                    what + f"  [{sig}; where_fin({op['n']!r},{l!r},{p!r}) with the default written out is right]"))
    return out

def _check(spec, ctx=None):
    """-> (violations of moving_average [(sig, what)], violations of the operations on the Result [(index of the operation, sig, what)])"""
    viol = []
    def note(name, n=1):
        if ctx: ctx.count(name, n)
    _setup()
    from coba.exceptions import CobaException
    from coba.results.core import moving_average

    # ---- moving_average against its definitions
    for m in spec.get("ma", []):
        vals, span, w = m["values"], m["span"], m["weights"]
        wk = "exp" if w == "exp" else "weighted" if w else "plain"
        sk = "none" if span is None else "1" if span == 1 else "ge-len" if span >= len(vals) else "window"
        if ctx: ctx.case(("ma", wk, sk, min(len(vals), 4)), nontrivial=len(vals) >= 2)
        note("oracle.moving_average")
        if wk == "exp": note("oracle.moving_average.exp")
        if wk == "weighted": note("oracle.moving_average.weighted")
        if sk == "window": note("oracle.moving_average.sliding")
        try:
            got = list(moving_average(list(vals), span, w if w is None or w == "exp" else list(w)))
        except Exception as e:
            viol.append((f"moving_average/weights={wk}/span={sk}/mode=raise:{type(e).__name__}", f"moving_average({vals},{span},{w}) raised {type(e).__name__}: {e}"))
            continue
        exp = ref_ma(vals, span, w)
        scale = max([abs(v) for v in vals], default=1)
        if len(got) != len(exp):
            viol.append((f"moving_average/weights={wk}/span={sk}/mode=wrong-length", f"moving_average({vals},{span},{w}) has {len(got)} values, definition {len(exp)}"))
        elif not all(_close(g, e, scale) for g, e in zip(got, exp)):
            i = next(i for i, (g, e) in enumerate(zip(got, exp)) if not _close(g, e, scale))
            viol.append((f"moving_average/weights={wk}/span={sk}/mode=wrong-value", f"moving_average({vals},{span},{w})[{i}] = {got[i]!r}, definition {float(exp[i])!r}"))

    # ---- the Result
    try: R = build(spec)
    except Exception as e:     # a Result that cannot be constructed is outside "for all Results"
        note(f"skipped.build-raised:{type(e).__name__}"); return viol, []
    note("build." + spec["build"])
    state = extract(R)
    dangling, unref = integrity(state)
    if dangling:           # cannot happen for the generated inputs; such a Result is outside the property's domain
        note("diag.input-dangling"); return viol, []
    consistent = not unref
    meta = dict(spec["meta"], names=spec.get("names") or {})
    n_e = len({ev[0] for ev in state.evals}); n_l = len({ev[1] for ev in state.evals})
    prefix = []
    opv = []                             # (index of the operation, sig, what)
    asked = []                           # what the object R has been asked so far (questions leave the object as it is -- or should)
    applied = []                         # positions of the transformations that led to R
    def absent(q, known):
        named = [c for k in ("l", "p", "x") if q.get(k) is not None for c in ([q[k]] if isinstance(q[k], str) else q[k])]
        return any(c not in known for c in named) or any(c not in known and c not in state.icols for c in q.get("kw", {})) or ("y" in q and q["y"] not in state.icols)
    def on_fresh(i_op, op, sig, asked, recheck):
        """an alarm on an object that was asked something before: does the same call on a newly built object pass?  Then the history is the
        mechanism and the signature says after which kind of question (the first earlier question that does it on its own) the answer is wrong"""
        try:
            if any(a == sig for a, _ in recheck(fresh_result(spec, applied))): return None
            for q in asked:
                F = fresh_result(spec, applied); ask(F, q)
                if any(a == sig for a, _ in recheck(F)): return _q_cls(q)
        except Exception: return None
        return "several-questions"
    for i_op, op in enumerate(spec["ops"]):
        kind = op["op"]
        chained = bool(prefix)
        known = set(state.cols["env"]) | set(state.cols["lrn"]) | set(state.cols["val"]) | {"full_name", "index"}
        if absent(op, known):
            note("skipped.column-absent"); continue     # e.g. a parameter no loaded row carries
        gaps = index_gaps(state)                        # an earlier where on an interaction column left indexes other than 1..N
        icols = int_where_cols(state, op)
        # ------------------------------------------------------------------ raw_learners (an observation: R stays)
        if kind == "raw_learners":
            if gaps and op["x"] == "index":             # 'length' and the x axis are not defined by the statement there
                note("skipped.raw_learners-index-not-1..N"); continue
            v = check_raw(R, state, op, prefix, meta, n_e, n_l, ctx, note, asked)
            if v and asked:
                out = []
                for a, b in v:
                    after = on_fresh(i_op, op, a, asked, lambda F: check_raw(F, state, op, prefix, meta, n_e, n_l, None, lambda *_: None, []))
                    xk = "index" if op["x"] == "index" else "parameter"
                    out.append((a, b) if after is None else (f"raw_learners/x={xk}/same-result-asked-before={after}/mode=" + a.rpartition("/mode=")[2],
                                b + f"  [{a}; the same call on a newly built Result (same rows, same chain) gives the right answer; this object was asked {[_q_cls(q) for q in asked]} before]"))
                v = out
            opv.extend((i_op, a, b) for a, b in v)
            asked.append(op)
            continue
        # ------------------------------------------------------------------ transformations
        if kind == "where_fin":
            for q in op.get("before", []):              # the object is asked something else first; what it answers does not matter here
                if absent(q, known): continue
                ask(R, q); asked.append(q)
        dflt = dflt_flag(op)
        try:
            R2 = apply_op(R, op)
        except Exception as e:
            if kind == "where_fin":
                oc = key_order_class(state, *eff_lp(op)) if (op["l"] is not None or op["p"] is not None) else "total"
                flags = "".join(f"/{f}" for f in ([oc] if oc != "total" else []) + (["empty-result"] if not state.evals else []))
                opv.append((i_op, f"where_fin{dflt}/n={_cls_n(op['n'])}{flags}/mode=raise:{type(e).__name__}", f"where_fin({op['n']!r},{op['l']!r},{op['p']!r}) raised {type(e).__name__}: {e}"))
            else: note(f"skipped.{kind}-raised")
            break
        st2 = extract(R2)
        note("oracle.integrity"); note(f"oracle.integrity.after-{kind}")
        klabel = kind + dflt + ("/on=interaction-column" if icols else "")
        if icols:
            # rows are selected inside the evaluations: some evaluations keep a part of their rows, others none at all
            note("oracle.integrity.after-where.interaction-column")
            gone = [ev for ev in state.evals if ev not in st2.evals]
            if gone and st2.evals:
                note("oracle.integrity.after-where.interaction-column.evaluation-removed")
                if consistent:
                    note("oracle.integrity.after-where.interaction-column.evaluation-removed.input-consistent")
                    for k, name in enumerate(("env", "lrn", "val")):
                        # as many evaluations left as the table has rows, although one of its ids is gone with its evaluations
                        if len(st2.evals) == len(state.par[name]) and len({ev[k] for ev in st2.evals}) < len(state.par[name]):
                            note("oracle.integrity.after-where.interaction-column.id-removed.kept-evaluations-equal-table-rows")
                            break
        cut = all(c == "index" and isinstance(op["kw"][c], dict) and set(op["kw"][c]) <= {"<=", "<"} for c in icols)   # index <= k keeps a prefix
        bad = subset_and_values(state, st2, prefix=cut)
        if bad:
            opv.append((i_op, f"{klabel}/invariant/mode={bad}", f"{kind} {op}: {bad}")); break
        dangling2, unref2 = integrity(st2)
        if dangling2:
            opv.append((i_op, f"{klabel}/integrity/mode=dangling-{'+'.join(dangling2)}-id", f"after {kind} {op} interaction rows reference ids absent from {dangling2}")); break
        explicit = kind == "where_fin" and (op["l"] is not None or op["p"] is not None)
        n_only   = kind == "where_fin" and not explicit          # where_fin(n): no pairing, lengths only
        lengths_unspecified = kind == "where_fin" and op["n"] is not None and gaps
        if n_only and not consistent:
            # "where_fin ... leaves the four tables mutually consistent ... every parameter row is referenced" -- also when nothing had to be
            # dropped or cut and the input held rows of learners / environments that were never evaluated (what an experiment log holds)
            note("oracle.integrity.after-where_fin.no-pairing.input-unreferenced")
            if set(st2.evals) == set(state.evals):          # no evaluation was dropped: the only thing to prune are the rows nobody referred to
                note(f"oracle.integrity.after-where_fin.no-pairing.input-unreferenced.n={_cls_n(op['n'])}.nothing-dropped")
        if unref2 and (consistent or explicit or n_only):
            which = "parameter" if n_only and not consistent else "+".join(unref2)      # one mechanism (nothing dropped: nothing pruned), one signature
            opv.append((i_op, f"{klabel}" + ("/no-pairing" if n_only and not consistent else "") + f"/integrity/mode=unreferenced-{which}-row" +
                         ("" if explicit else "/input-consistent" if consistent else "/input-unreferenced") + ("/index-not-1..N" if lengths_unspecified else ""),
                         f"after {kind} {op} the {unref2} table holds rows no interaction refers to")); break
        if lengths_unspecified:
            # n after a where that left indexes other than 1..N: the statement does not say what the 'length' of such an evaluation is;
            # the integrity of the four tables (above) is asserted all the same
            note("oracle.where_fin.index-not-1..N-lengths-unasserted")
            if R2 is not R: asked = []
            R, state = R2, st2
            applied.append(i_op)
            consistent = not unref2
            prefix.append(kind)
            n_e = len({ev[0] for ev in state.evals}); n_l = len({ev[1] for ev in state.evals})
            continue
        if kind == "where_fin":
            v = check_fin(state, st2, op, prefix, meta, n_e, n_l, ctx, note, asked)
            if v and asked:
                out = []
                for a, b in v:
                    after = on_fresh(i_op, op, a, asked, lambda F: check_fin(state, extract(apply_op(F, op)), op, prefix, meta, n_e, n_l, None, lambda *_: None, []))
                    out.append((a, b) if after is None else (f"where_fin/same-result-asked-before={after}/mode=" + a.rpartition("/mode=")[2],
                                b + f"  [{a}; the same call on a newly built Result gives the right answer; this object was asked {[_q_cls(q) for q in asked]} before]"))
                v = out
            opv.extend((i_op, a, b) for a, b in v)
            if v: break
        if R2 is not R: asked = []
        R, state = R2, st2
        applied.append(i_op)
        consistent = not unref2
        prefix.append("where-int" if icols else kind)
        n_e = len({ev[0] for ev in state.evals}); n_l = len({ev[1] for ev in state.evals})
    return viol, opv

def flag_names(spec, opv):
    """a violation in a case with renamed columns: does it depend on the NAMES?  The case is run again with plain names; a signature
    that is still there is reported as it is.  Otherwise the renamed columns are given their plain names back one after the other
    (a column stays plain when the violation survives that), and what remains -- the column(s) whose NAME is needed -- decides the
    signature: <operation>/<role>-name~<special name>/mode=<failure>, the role being the first of x, l, p, where the column is named in"""
    memo = {}
    def sigs(keep):           # signatures of the case in which only the columns `keep` still carry their special-looking names
        k = tuple(sorted(keep))
        if k not in memo: memo[k] = {(j, a) for j, a, _ in _check2(neutral_spec(spec, set(spec["names"]) - set(keep)), None)[1]}
        return memo[k]
    out = []
    for i, sig, what in opv:
        if (i, sig) in sigs(()): out.append((i, sig, what)); continue
        used = [r for op in spec["ops"][:i + 1] for r in op_names(spec, op)]
        keep = sorted(spec["names"])
        for c in list(keep):
            rest = [k for k in keep if k != c]
            if (i, sig) in sigs(rest): keep = rest
        roles = [r for r in op_names(spec, spec["ops"][i]) if r[1] in keep] or [r for r in used if r[1] in keep]
        fl = set()
        for c in keep:
            rs = [r for r in roles if r[1] == c]
            if rs: fl.add(min(rs, key=lambda r: (("l", "p", "x", "where") if sig.startswith("where_fin") else ("x", "l", "p", "where")).index(r[0])))
        fl = "".join(f"/{role}-name~{tok}" for role, tok in sorted({(role, tok) for role, _, tok in fl})) or "/column-names"
        head, sep, tail = sig.rpartition("/mode=")
        out.append((i, head.split("/")[0] + fl + sep + tail,
                    what + f"  [{sig}; depends on the NAME of {sorted({(r, c) for r, c, _ in roles})}: the same case with plain column names passes]"))
    return out

def pairing_sig(mode, info, oc):
    """mechanism-level signature of a wrong pairing decision: the one structural feature that explains it, not every flag that is on"""
    if oc == "partial-order-keys":
        # values that sort without error but are only partially ordered: one mechanism (a p-group seen as two), one signature
        return "where_fin/pairing/partial-order-keys/mode=wrong-groups"
    if mode == "incomplete-group-kept" and info["count_eq_but_incomplete"]:
        # some p-group holds as many evaluations as there are levels, but a level twice and another not at all
        return "where_fin/pairing/dup-level-in-group/mode=incomplete-group-kept"
    flags = ([oc] if oc != "total" else []) + (["dup-level-in-group"] if info["dup_level_group"] else [])
    return "where_fin/pairing" + "".join(f"/{f}" for f in flags) + f"/mode={mode}"

def diff_fin(before, got, exp, info, oc, n, l, p, call):
    """exact comparison of the surviving evaluations and their lengths with the reference -> [(sig, what)]"""
    extra = [ev for ev in got if ev not in exp]
    lost  = [ev for ev in exp if ev not in got]
    if extra or lost:
        kept0 = set(ref_pairing(before, l, p)[0])
        bad = sorted(ev for ev in extra if ev not in kept0)
        if bad:
            return [(pairing_sig("incomplete-group-kept", info, oc), f"{call}: kept {bad} whose p-group does not hold exactly one evaluation for every level; "
                     f"levels={info['n_levels']} groups={info['n_groups']} reference keeps {sorted(exp)}")]
        if extra:
            return [(f"where_fin/n={_cls_n(n)}/mode=short-evaluation-kept", f"{call}: kept {extra} shorter than requested")]
        return [(pairing_sig("complete-group-dropped", info, oc), f"{call}: dropped {sorted(lost)} although the p-group is complete and long enough; "
                 f"levels={info['n_levels']} groups={info['n_groups']} kept {sorted(got)}")]
    for ev, rows in got.items():
        if len(rows) != len(exp[ev]):
            lens = sorted({len(r) for r in before.evals.values()})
            return [(f"where_fin/n={_cls_n(n)}/mode=wrong-length", f"{call}: evaluation {ev} has {len(rows)} rows, expected {len(exp[ev])} (input lengths {lens})")]
    return []

def check_fin(before, after, op, prefix, meta, n_e, n_l, ctx, note, asked=()):
    v = _check_fin(before, after, op, prefix, meta, n_e, n_l, ctx, note, asked)
    dflt = dflt_flag(op)             # only one of l / p was said: the signature names the one that was left to its default
    return [(a.replace("where_fin/", f"where_fin{dflt}/", 1), b) for a, b in v] if dflt else v

def _check_fin(before, after, op, prefix, meta, n_e, n_l, ctx, note, asked=()):
    n = op["n"]
    l, p = eff_lp(op)
    exp, info = ref_where_fin(before, n, l, p)
    oc = key_order_class(before, l, p) if l is not None else "total"
    nk = _cls_names(meta, op)
    dflt = dflt_flag(op)
    if dflt: note("oracle.where_fin" + dflt.replace("/", "."))
    if asked: note("oracle.where_fin.asked-before")
    if nk:
        note("oracle.where_fin.near-special-name")
        for k, tok, rel in nk: note(f"names.where_fin.{k}~{tok}")
    if ctx:
        ctx.case(("fin", nk, _cls_n(n), _cls_cols(l), _cls_cols(p), dflt, tuple(sorted({_q_cls(q) for q in asked})), min(n_e, 4), min(n_l, 4), meta["pattern"], meta["lpat"], oc,
                  info["dup_level_group"], info["dropped_groups"] > 0, info["truncated"] > 0, info["short_dropped"] > 0, tuple(prefix),
                  meta["ekinds"].get("data"), meta["lkinds"].get("lr")),
                 nontrivial=n_e >= 2 and n_l >= 2)
    note("oracle.where_fin")
    if prefix: note("oracle.where_fin.chained")
    if info["dup_level_group"]: note("oracle.where_fin.dup-level-group")
    if info["count_eq_but_incomplete"]: note("oracle.where_fin.count-equal-but-incomplete")
    if info["dropped_groups"]: note("oracle.where_fin.group-dropped")
    if info["truncated"]: note("oracle.where_fin.truncated")
    if info["short_dropped"]: note("oracle.where_fin.short-dropped")
    if oc != "total": note("oracle.where_fin." + oc)
    call = f"where_fin({n!r},{op['l']!r},{op['p']!r})"
    got = after.evals
    if l is None:
        # n alone: lengths only (survivors are input evaluations of length >= n, cut to n)
        note("oracle.where_fin.n-only")
        for ev, rows in got.items():
            if ev not in exp: return [(f"where_fin/n={_cls_n(n)}/no-pairing/mode=short-evaluation-kept", f"{call}: evaluation {ev} of length {len(before.evals[ev])} survives")]
            if len(rows) != len(exp[ev]): return [(f"where_fin/n={_cls_n(n)}/no-pairing/mode=wrong-length", f"{call}: evaluation {ev} has {len(rows)} rows, requested {len(exp[ev])}")]
        return []
    if info["ambiguous"]:
        # n=k and a complete group holds an evaluation shorter than k: the statement is silent about the rest of that group
        note("oracle.where_fin.weak")
        kept0 = set(ref_pairing(before, l, p)[0])
        for ev, rows in got.items():
            if ev not in kept0: return [(pairing_sig("incomplete-group-kept", info, oc), f"{call}: evaluation {ev} survives although its p-group is incomplete on the input")]
            if ev not in exp:   return [("where_fin/n=int/mode=short-evaluation-kept", f"{call}: evaluation {ev} of length {len(before.evals[ev])} survives")]
            if len(rows) != n:  return [("where_fin/n=int/mode=wrong-length", f"{call}: evaluation {ev} has {len(rows)} rows")]
        # whatever survives must itself be complete: one evaluation of every surviving level in every surviving p-group
        kept2, info2 = ref_pairing(after, l, p)
        if len(kept2) != len(got):
            if oc == "partial-order-keys": return [(pairing_sig("incomplete-group-kept", info, oc), f"{call}: kept {sorted(got)}")]
            return [("where_fin/n=int/short-evaluation-in-complete-group/mode=incomplete-group-kept",
                     f"{call}: after dropping the evaluations shorter than {n} the result holds {info2['dropped_groups']} p-group(s) without exactly one evaluation for every level (kept {sorted(got)})")]
        return []
    note("oracle.where_fin.exact")
    return diff_fin(before, got, exp, info, oc, n, l, p, call)

def check_raw(R, state, op, prefix, meta, n_e, n_l, ctx, note, asked=()):
    from coba.exceptions import CobaException
    x, y, l, p, span = op["x"], op["y"], op["l"], op["p"], op["span"]
    xk = "index" if x == "index" else _cls_cols(x)
    sk = "none" if span is None else "1" if span == 1 else "k"
    call = f"raw_learners(x={x!r},y={y!r},l={l!r},p={p!r},span={span!r})"
    fin_n = "min" if x == "index" else None
    exp_evals, info = ref_where_fin(state, fin_n, l, p)
    oc = key_order_class(state, l, p)
    nk = _cls_names(meta, op)
    if ctx:
        ctx.case(("raw", nk, xk, sk, _cls_cols(l), _cls_cols(p), tuple(sorted({_q_cls(q) + ("/same-lp" if (q["l"], q["p"]) == (l, p) else "") for q in asked})),
                  min(n_e, 4), min(n_l, 4), meta["pattern"], meta["lpat"], oc, info["dup_level_group"],
                  info["dropped_groups"] > 0, info["truncated"] > 0, tuple(prefix)), nontrivial=n_e >= 2 and n_l >= 2 and bool(exp_evals))
    note("oracle.raw_learners")
    if asked:
        # this very object answered other questions before; a Result does not change, so the answer must be the one a new object gives
        note("oracle.raw_learners.asked-before")
        other = [q for q in asked if q["op"] == "raw_learners" and (q["l"], q["p"]) == (l, p) and (q["x"] == "index") != (x == "index")]
        if other:
            note("oracle.raw_learners.asked-before.same-lp-other-x-kind")
            complete = ref_where_fin(state, None, l, p)[0]
            if len({len(rows) for rows in complete.values()}) > 1:     # cut to the shortest for x='index', whole evaluations for a parameter x
                note("oracle.raw_learners.asked-before.same-lp-other-x-kind.ragged")
                note("oracle.raw_learners.asked-before.same-lp-other-x-kind.ragged." + ("index-after-parameter" if x == "index" else "parameter-after-index"))
    # first the finishing step on its own, so that an alarm names the right mechanism
    try:
        fin = extract(R._filter_fin(fin_n, l, p))
    except Exception as e:
        return [(f"where_fin/n={_cls_n(fin_n)}" + (f"/{oc}" if oc != "total" else "") + f"/mode=raise:{type(e).__name__}", f"{call}: finishing step raised {type(e).__name__}: {e}")]
    v = diff_fin(state, fin.evals, exp_evals, info, oc, fin_n, l, p, call + " finishing step")
    if v: return v
    try:
        t = R.raw_learners(x=x, y=y, l=l, p=p, span=span)
    except CobaException as e:
        if not exp_evals: note("oracle.raw_learners.nothing-finished"); return []
        return [(f"raw_learners/x={xk}/mode=raise:CobaException", f"{call} raised {e} although {len(exp_evals)} evaluations are finished")]
    except Exception as e:
        return [(f"raw_learners/x={xk}/mode=raise:{type(e).__name__}", f"{call} raised {type(e).__name__}: {e}")]
    if not exp_evals:
        return [(f"raw_learners/x={xk}/mode=data-without-finished-evaluations", f"{call} returned {len(t)} rows although nothing is finished")]
    note("oracle.raw_learners.index" if x == "index" else "oracle.raw_learners.param-x")
    if nk:
        # the column NAMES are close to the names the code tests for; deciding when the name must not change what is computed
        ragged = len({len(rows) for rows in exp_evals.values()}) > 1
        for k, tok, rel in nk: note(f"names.raw_learners.{k}~{tok}")
        if any(k == "x" for k, _, _ in nk):
            note("oracle.raw_learners.near-special-name-x")
            if ragged: note("oracle.raw_learners.near-special-name-x.ragged")          # cutting to a common length would change the averages
            if ragged and any(k == "x" and tok == "index" and rel == "contains" for k, tok, rel in nk): note("oracle.raw_learners.near-index-name-x.ragged")
        if any(k != "x" for k, _, _ in nk): note("oracle.raw_learners.near-special-name-lp")
    # direct computation from the interaction rows
    L = keyer(state, l)
    po = (x != "index" and key_order_class(state, l, x) == "partial-order-keys") or key_order_class(state, l, l) == "partial-order-keys"
    if po: note("oracle.raw_learners.partial-order-keys")
    cells, lvals, xvals = {}, {}, {}
    for ev, rows in exp_evals.items():
        Y = [r[y] for r in rows]
        lv = L(ev); lvals.setdefault(lv, None)
        if x == "index":
            ma = ref_ma(Y, span, None)
            for r, m in zip(rows, ma):
                xvals.setdefault(r["index"], None)
                cells.setdefault((lv, r["index"]), []).append(m)
        else:
            xv = keyer(state, x)(ev); xvals.setdefault(xv, None)
            cells.setdefault((lv, xv), []).append(ref_final(Y, span))
    def sig(mode, with_span=False):
        if po: return "raw_learners/partial-order-keys/mode=wrong-cells"      # one mechanism: rows of one learner/x seen as two groups
        return f"raw_learners/x={xk}" + (f"/span={sk}" if with_span else "") + f"/mode={mode}"
    cols = list(t.columns)
    if "x" not in cols: return [(sig("no-x-column"), f"{call}: columns {cols}")]
    gx = list(t["x"])
    gl = [c for c in cols if c != "x"]
    if len(gx) != len(xvals) or any(v not in xvals for v in gx):
        return [(sig("wrong-x-values"), f"{call}: x values {gx}, direct computation {list(xvals)}")]
    if len(gl) != len(lvals) or any(v not in lvals for v in gl):
        return [(sig("wrong-learner-columns"), f"{call}: columns {gl}, direct computation {list(lvals)}")]
    for c in gl:
        col = list(t[c])
        if len(col) != len(gx): return [(sig("ragged-table"), f"{call}: column {c!r} has {len(col)} cells for {len(gx)} x values")]
        for xv, got in zip(gx, col):
            note("oracle.raw_learners.cells")
            want = cells.get((c, xv))
            got = list(got)
            if want is None:
                if not (len(got) == 1 and isinstance(got[0], float) and got[0] != got[0]):
                    return [(sig("value-in-empty-cell"), f"{call}: cell ({c!r},{xv!r}) = {got}, no finished evaluation contributes")]
                continue
            a, b = sorted(map(float, got)), sorted(map(float, want))
            if len(a) != len(b) or any(u != u for u in a):
                return [(sig("wrong-count"), f"{call}: cell ({c!r},{xv!r}) = {a}, direct computation {b}")]
            if not all(_close(u, v, 10.0) for u, v in zip(a, b)):
                return [(sig("wrong-value", True), f"{call}: cell ({c!r},{xv!r}) = {a}, direct computation {b}")]
    return []

# ------------------------------------------------------------------------------------------ entry points
def run_shard(ctx):
    _setup()
    i = 0
    while i < ctx.n and ctx.time_left() > 0:
        spec = gen_case(ctx.rng)
        v = check_case(spec, ctx)
        if i < 2: ctx.sample({"build": spec["build"], "meta": spec["meta"], "ops": spec["ops"], "n_evals": len(spec.get("evals", []))})
        for sig, what in v:
            ctx.violation(sig, what, spec)
        i += 1
    ctx.count("results", i)
    if i < ctx.n: ctx.extra["results_skipped_for_time"] = ctx.n - i

def replay(witness):
    return check_case(witness)
