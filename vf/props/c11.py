"""C11 -- Scale and Impute apply exactly the statistics of their fitting window.

One case = one small table of context features (columns of ints / floats / strings with None / NaN cells) plus one
filter configuration.  The table is fed to the real coba filter three times -- as dense rows, as sparse dicts (numeric
zeros omitted) and, for one column, as scalar contexts -- directly (Scale(...).filter / Impute(...).filter) or through
Environments.scale / Environments.impute (incl. lists of statistics).  The oracle recomputes the documented statistics of
the fitting window in exact rational arithmetic (fractions.Fraction built from the float inputs; median / mode / the
repository's linear-interpolation iqr re-derived by definition) and compares every output cell with relative tolerance
1e-9; the three representations are additionally compared with each other where the statement defines no value.

The sequence a filter reads is retained by the check (as a cache, a materialized environment or the caller would): the
contexts come in every container coba hands to the filters -- tuples, lists, LazyDense, the SparseDense rows that Densify
makes out of sparse contexts (built directly and by the real Densify), dicts, LazySparse, also several of them inside
one sequence -- and the same filter objects / the same environment read the sequence one to three times.  After every
read the retained sequence must still have the values it had (a filter that writes into its source makes every later
read, with or without the filter, wrong) and every read has to satisfy the statement on its own.
"""
import math, itertools
from fractions import Fraction as F
from collections import Counter

ID    = "C11"
LEVEL = "exploration"
RULE  = ("seeded tables (1-12 interactions x 1-5 feature columns of kind int/float/zero-heavy/constant/huge/string/"
         "mixed, missing pattern none/None/NaN/first-row/whole-window/outside-window) x filter configuration (Scale: "
         "shift in {number,min,mean,median,med} x scale in {number,minmax,std,iqr,maxabs}; Impute: stat or list of "
         "stats x indicator) x using in {None,1,<N,=N,>N} x entry point (filter / Environments) x representation "
         "(dense tuple/list/LazyDense/SparseDense as built by Densify/several container types in one sequence, sparse "
         "dict/LazySparse/both in one sequence with zeros omitted, scalar) x 1-3 reads of the retained sequence through "
         "the same filter objects; one oracle evaluation per (case, representation); distinct & non-trivial = distinct "
         "(filter, configuration classes, using class, representation, container, entry point, sorted column-feature "
         "signature) where at least one cell must change")
PLAN  = {"quick":    {"shards": 16, "cases": 44000,   "timeout": 600,  "budget_s": 70},
         "thorough": {"shards": 16, "cases": 3200000, "timeout": 3000, "budget_s": 780}}
REQUIRED = ["oracle.scale.cell", "oracle.scale.untouched-column", "oracle.scale.degenerate-column",
            "oracle.impute.imputed-cell", "oracle.impute.unchanged-cell", "oracle.impute.indicator",
            "oracle.other-fields", "oracle.xrep.dense-sparse", "oracle.xrep.dense-scalar",
            "oracle.envs.scale", "oracle.envs.impute", "oracle.envs.impute.list",
            "reach.none-first-row", "reach.nan-in-window", "reach.sparse-key-absent-from-first-row",
            "reach.using-shorter", "reach.using-longer", "reach.using-1", "oracle.shared-filter-object",
            "oracle.source-untouched", "oracle.reread", "reach.densified-context", "reach.densified-context-reread",
            "reach.mixed-containers.dense", "reach.mixed-containers.sparse", "reach.impute.nan-in-window"]
ASSUMPTIONS = [
    "degenerate denominators (exact value < 1e-5; the code switches at 1e-6): only 'no exception, finite numbers, "
    "missing cells stay missing, non-numeric untouched, representations agree' is asserted",
    "a statistic that is undefined on the window (std of fewer than two values) and, for Scale, a window without a "
    "single non-missing value (even when shift and scale are given numbers: such a window does not tell whether the "
    "feature is numeric, and coba deliberately scales only features its fitting window shows to be numeric) define no output: "
    "only 'no exception, missing cells stay missing, numbers stay finite numbers' is asserted for that column",
    "sparse semantics: an absent key is the number 0 (not a missing value); only numeric zeros are ever omitted",
    "Scale with shift != 0 on sparse contexts is documented to raise CobaException: accepted, nothing else asserted",
    "Impute: a missing value is None or NaN (the quantifier lists NaN features, the docstring of Impute names nan as "
    "the missing value and Scale ignores both); NaN is only put into numeric columns",
    "Impute indicator: required for every feature that has a missing value in the window, imputable or not (the "
    "statement's wording, and what the repository's unit tests pin for scalar contexts), once per filter of a list of "
    "statistics that still sees the missing values; the layout (dense: appended in feature order, sparse: "
    "'<key>_is_missing', scalar: [value, flag]) is the one the repository's unit tests pin",
    "source-untouched: the retained input sequence is compared by value (1 and 1.0 are the same value; evaluating a "
    "lazy row is not a change); a re-read that gives cell for cell what the judged first read gave is not judged again",
    "one sequence never mixes dense, sparse and scalar contexts (only container types of one kind)",
    "mode with ties: any modal value is accepted",
    "columns are type-homogeneous apart from missing cells; 'mixed' columns (a string inside the fitting window of an "
    "otherwise numeric column) are only given to Scale with a statistic-based shift or scale and must stay untouched",
    "booleans, infinities, -0.0 and magnitudes above 1e7 are not generated",
]

TOL = 1e-9
DEGENERATE = F(1, 100000)

# ====================================================================================================== cells
def _dec(c):
    if c == "nan": return float("nan")
    if isinstance(c, str): return c[2:]            # "s:<text>"
    return c
def _is_nan(v): return isinstance(v, float) and v != v
def _is_num(v): return isinstance(v, (int, float)) and not isinstance(v, bool) and v == v
def _is_missing(v): return v is None or _is_nan(v)
_is_missing_scale = _is_missing

# ====================================================================================================== reference
def ref_median(vals):
    s = sorted(vals); n = len(s)
    return s[n//2] if n % 2 else (s[n//2-1] + s[n//2]) / 2
def ref_quantile(s, p):
    pos = p * (len(s) - 1); lo = pos.numerator // pos.denominator; w = pos - lo
    return s[lo] if w == 0 else (1 - w) * s[lo] + w * s[lo+1]
def ref_iqr(vals):
    if len(vals) <= 1: return F(0)
    s = sorted(vals)
    return ref_quantile(s, F(3, 4)) - ref_quantile(s, F(1, 4))

def scale_plan(col, nwin, shift, scale):
    """what the statement demands of one feature column: ('untouched',) | ('unspec',) | ('degenerate', shift) |
    ('affine', shift, scale)"""
    if any(isinstance(v, str) for v in col): return ("untouched",)
    W = [F(v) for v in col[:nwin] if _is_num(v)]
    # a window without a single value says nothing about the feature (not even that it is numeric): the unchanged code
    # scales such a scalar feature by given numbers but leaves the same dense / sparse feature alone -> nothing asserted
    if not W: return ("unspec",)
    if isinstance(shift, (int, float)): sh = F(shift)
    elif shift == "min":  sh = -min(W)
    elif shift == "mean": sh = -sum(W) / len(W)
    elif shift in ("median", "med"): sh = -ref_median(W)
    else: raise ValueError(shift)
    if isinstance(scale, (int, float)): return ("affine", sh, F(scale))
    if scale == "minmax": den = max(W) - min(W)
    elif scale == "std":
        if len(W) < 2: return ("unspec",)
        m = sum(W) / len(W)
        var = sum((w - m) ** 2 for w in W) / (len(W) - 1)
        den = F(math.sqrt(var))                    # correctly rounded: relative error 1e-16, far inside the tolerance
    elif scale == "iqr":    den = ref_iqr(W)
    elif scale == "maxabs": den = max(abs(w + sh) for w in W)
    else: raise ValueError(scale)
    if den < DEGENERATE: return ("degenerate", sh)
    return ("affine", sh, 1 / den)

def impute_stat(col, nwin, stat):
    """('none',) when the statistic is undefined / the feature is not imputable, else ('num', Fraction) for mean/median,
    ('any', [acceptable values]) for mode"""
    W = [v for v in col[:nwin] if not _is_missing(v)]
    if not W: return ("none",)
    if stat in ("mean", "median"):
        if any(isinstance(v, str) for v in col): return ("none",)
        Wf = [F(v) for v in W]
        return ("num", sum(Wf) / len(Wf) if stat == "mean" else ref_median(Wf))
    cnt = Counter(W); top = max(cnt.values())
    return ("any", [v for v, n in cnt.items() if n == top])

def impute_plan(col, nwin, stats, indicator):
    """-> (deciding stat result, stages (filters applied in order) that have to add an indicator for this feature).
    The feature has missing values in the window of every stage up to and including the one whose statistic is
    defined (that one replaces them all); when no statistic is defined it keeps them through all stages."""
    miss_win = any(_is_missing(v) for v in col[:nwin])
    for s, st in enumerate(stats):
        r = impute_stat(col, nwin, st)
        if r[0] != "none":
            return r, (list(range(s + 1)) if indicator and miss_win else [])
    return ("none",), (list(range(len(stats))) if indicator and miss_win else [])

# ====================================================================================================== generator
INTS   = [0, 0, 0, 1, 1, 2, 3, 5, -1, -4, 7, 10]
FLOATS = [0.0, 0.5, 1.5, -2.25, 3.75, 10.0, 0.001, 1000.0, 2.5, -0.125]
STRS   = ["a", "b", "c", "", "a b"]
def _gen_value(rng, kind, const):
    if kind == "const":   return const
    if kind == "int":     return rng.choice(INTS)
    if kind == "float":   return rng.choice(FLOATS) if rng.random() < .5 else round(rng.uniform(-50, 50), 3)
    if kind == "sparsey": return 0 if rng.random() < .6 else rng.choice([1, 2, -3, 0.5, 4])
    if kind == "huge":    return rng.choice([1000000, 1000003, 999999.5, 2500000])
    if kind in ("str", "mixed"): return "s:" + rng.choice(STRS)
    raise ValueError(kind)

def _gen_column(rng, n, nwin, filt, allow_mixed):
    r = rng.random()
    kind = ("int" if r < .22 else "float" if r < .44 else "sparsey" if r < .62 else "const" if r < .72 else
            "huge" if r < .76 else "str" if r < .94 else "mixed")
    if kind == "mixed" and not allow_mixed: kind = "str"
    const = rng.choice(INTS + FLOATS)
    base = "int" if kind == "mixed" else kind
    col = [_gen_value(rng, base, const) for _ in range(n)]
    if kind == "mixed":
        col[rng.randrange(nwin)] = rng.choice(["s:a", "s:b"])      # a string inside the window (maybe the first row)
        return kind, col
    # missing pattern
    m = rng.random()
    miss_vals = [None]
    if kind != "str":                                               # NaN is a missing value for both filters
        miss_vals = rng.choice([[None], ["nan"], [None, "nan"]] if filt == "scale" else [[None], [None], ["nan"], [None, "nan"]])
    if m < .35: pass
    elif m < .60:                                                   # scattered
        for i in range(n):
            if rng.random() < .3: col[i] = rng.choice(miss_vals)
    elif m < .78:                                                   # the first row is missing (+ maybe more)
        col[0] = rng.choice(miss_vals)
        for i in range(1, n):
            if rng.random() < .15: col[i] = rng.choice(miss_vals)
    elif m < .86:                                                   # missing only after the window
        for i in range(nwin, n):
            if rng.random() < .6: col[i] = rng.choice(miss_vals)
    elif m < .92:                                                   # exactly one value in the window
        keep = rng.randrange(nwin)
        for i in range(nwin):
            if i != keep: col[i] = rng.choice(miss_vals)
    elif m < .96 and (kind != "str" or filt == "impute"):           # nothing but missing values in the window
        for i in range(nwin): col[i] = rng.choice(miss_vals)
    return kind, col

SHIFTS = [0, 0, 0, 2, -1.5, "min", "min", "mean", "mean", "median", "median", "med"]
SCALES = [1, 0.5, 2, -3, "minmax", "minmax", "std", "std", "iqr", "iqr", "maxabs", "maxabs"]
STATS  = ["mean", "median", "mode"]
DENSE_ROW_KINDS = ["tuple", "list", "lazy", "sparsedense"]

def gen_case(rng):
    filt = "scale" if rng.random() < .55 else "impute"
    n  = rng.choice([1, 2, 2, 3, 3, 4, 5, 6, 8, 12])
    uc = rng.choice(["none", "one", "shorter", "equal", "longer"])
    if uc == "shorter" and n < 2: uc = "one"
    using = {"none": None, "one": 1, "shorter": rng.randint(1, max(1, n-1)), "equal": n, "longer": n + rng.randint(1, 3)}[uc]
    nwin = n if using is None else min(using, n)
    spec = {"filter": filt, "using": using, "n": n}
    if filt == "scale":
        spec["shift"] = rng.choice(SHIFTS); spec["scale"] = rng.choice(SCALES)
        allow_mixed = not (isinstance(spec["shift"], (int, float)) and isinstance(spec["scale"], (int, float)))
    else:
        k = rng.random()
        if   k < .6:  spec["stats"] = rng.choice(STATS)                                  # a bare string
        elif k < .7:  spec["stats"] = [rng.choice(STATS)]
        else:         spec["stats"] = rng.sample(STATS, 2) if rng.random() < .85 else rng.sample(STATS, 3)
        spec["indicator"] = rng.random() < .5
        allow_mixed = False
    ncols = rng.choice([1, 1, 2, 2, 3, 3, 4, 5])
    kinds, cols = zip(*[_gen_column(rng, n, nwin, filt, allow_mixed) for _ in range(ncols)])
    spec["kinds"] = list(kinds)
    spec["table"] = [[cols[j][i] for j in range(ncols)] for i in range(n)]
    # sparse encoding: which numeric zeros are written explicitly (all others are omitted)
    p_keep = rng.choice([0, 0, .3])
    spec["keep_zero"] = [[rng.random() < p_keep for _ in range(ncols)] for _ in range(n)]
    spec["keys"] = rng.choice(["str", "int"])
    # the container of a context: one type for the whole sequence or ("mixed") a type chosen per interaction;
    # sparsedense / densify = the dense rows coba's Densify makes out of sparse contexts (built directly / by the filter)
    spec["dense_as"]  = rng.choice(["tuple", "list", "lazy", "lazy-callable", "sparsedense", "densify", "mixed", "mixed"])
    spec["sparse_as"] = rng.choice(["dict", "dict", "lazy", "mixed"])
    spec["dense_rows"]  = [rng.choice(DENSE_ROW_KINDS) for _ in range(n)]
    spec["sparse_rows"] = [rng.choice(["dict", "lazy"]) for _ in range(n)]
    # how often the (retained) input sequence is read through the same filter object / environment
    spec["reads"] = rng.choice([1, 1, 1, 1, 1, 1, 2, 2, 2, 3])
    spec["scalar_col"] = rng.randrange(ncols)
    spec["ikind"] = rng.choice(["sim", "log"])
    spec["extra"] = rng.random() < .3
    spec["via"] = "envs" if rng.random() < .35 else "filter"
    spec["warm"] = rng.random() < .3
    if spec["via"] == "envs" and filt == "scale":
        spec["targets"] = rng.choice(["context", ["context"]])
    return spec

# ====================================================================================================== running coba
def _key(spec, j): return f"k{j}" if spec["keys"] == "str" else j

def _omitted(spec, i, j, v): return _is_num(v) and v == 0 and not spec["keep_zero"][i][j]

def _contexts(spec, rep, table):
    """-> (contexts, perm): perm[j] = position of feature column j inside a dense context (None = identity)"""
    if rep == "dense":
        from coba.pipes import LazyDense
        from coba.pipes.rows import SparseDense
        how = spec["dense_as"]; ncols = len(table[0])
        if how == "densify":
            # the real Densify over sparse contexts (zeros omitted); its lookup table decides where a key ends up
            from coba.environments.filters import Densify
            f = Densify(n_feats=ncols, method="lookup")
            src = [{"context": {f"k{j}": v for j, v in enumerate(r) if not _omitted(spec, i, j, v)}} for i, r in enumerate(table)]
            out = [o["context"] for o in f.filter(src)]
            pos = {j: f._lookup[f"k{j}"] for j in range(ncols) if f"k{j}" in f._lookup}
            free = [p for p in range(ncols) if p not in pos.values()]      # never-written positions: columns of zeros
            perm = [pos[j] if j in pos else free.pop(0) for j in range(ncols)]
            return out, perm
        def one(kind, i, r):
            if kind == "tuple": return tuple(r)
            if kind == "list":  return list(r)
            if kind == "lazy":  return LazyDense(tuple(r))
            if kind == "sparsedense": return SparseDense({j: v for j, v in enumerate(r) if not _omitted(spec, i, j, v)}, len(r))
            return LazyDense(lambda r=r: list(r))
        kinds = spec.get("dense_rows") if how == "mixed" else None
        return [one(kinds[i] if kinds else how, i, r) for i, r in enumerate(table)], None
    if rep == "sparse":
        from coba.pipes import LazySparse
        out = []
        kinds = spec.get("sparse_rows") if spec["sparse_as"] == "mixed" else None
        for i, r in enumerate(table):
            d = {_key(spec, j): v for j, v in enumerate(r) if not _omitted(spec, i, j, v)}
            out.append(LazySparse(d) if (kinds[i] if kinds else spec["sparse_as"]) == "lazy" else d)
        return out, None
    if rep == "scalar":
        return [r[spec["scalar_col"]] for r in table], None
    raise ValueError(rep)

def _interactions(spec, contexts):
    from coba.primitives import SimulatedInteraction, LoggedInteraction
    out = []
    for i, c in enumerate(contexts):
        extra = {"note": f"row{i}", "weight": i + .5} if spec["extra"] else {}
        if spec["ikind"] == "sim":
            out.append(SimulatedInteraction(c, [1, 2, "x"], [i, i + 1, -i], **extra))
        else:
            out.append(LoggedInteraction(c, "x" if i % 2 else 2, i * .25, 1 / (i + 2), **extra))
    return out

def _make_env_class():
    from coba.primitives import Environment
    class _ListEnv(Environment):
        def __init__(self, items): self._items = items
        @property
        def params(self): return {}
        def read(self): return iter(self._items)
    return _ListEnv
_ENVCLS = None

def _build(spec, interactions, decoy=None):
    """-> read(): runs the real code over `interactions` and returns the list of output interactions; every call reads
    the same retained input sequence through the same filter objects / the same environment again.  With a decoy
    (another sequence of the same layout but other values) the SAME filter object / Environments call first handles the
    decoy: the statistics applied to `interactions` must still be those of its own fitting window."""
    from coba.environments.filters import Scale, Impute
    global _ENVCLS
    if spec["via"] == "filter":
        if spec["filter"] == "scale":
            f = Scale(spec["shift"], spec["scale"], "context", spec["using"])
            if decoy is not None:
                try: list(f.filter(decoy))
                except Exception: pass
            return lambda: list(f.filter(interactions))
        stats = spec["stats"] if isinstance(spec["stats"], list) else [spec["stats"]]
        fs = [Impute(st, spec["indicator"], spec["using"]) for st in stats]
        ditems = decoy
        for f in fs:
            if ditems is None: break
            try: ditems = list(f.filter(ditems))
            except Exception: ditems = None
        def read():
            items = interactions
            for f in fs: items = list(f.filter(items))     # the documented meaning of a list: applied in order
            return items
        return read
    from coba.environments import Environments
    if _ENVCLS is None: _ENVCLS = _make_env_class()
    envs = Environments(_ENVCLS(interactions)) if decoy is None else Environments(_ENVCLS(decoy), _ENVCLS(interactions))
    if spec["filter"] == "scale":
        envs = envs.scale(spec["shift"], spec["scale"], spec["targets"], spec["using"])
    else:
        envs = envs.impute(spec["stats"], spec["indicator"], spec["using"])
    want = 1 if decoy is None else 2
    if len(envs) != want: raise _Oracle("envs-count", f"{len(envs)} environments after one scale/impute call on {want} environment(s)")
    if decoy is not None:
        try: list(envs[0].read())
        except Exception: pass
    return lambda: list(envs[-1].read())

class _Oracle(Exception):
    def __init__(self, mode, what): self.mode, self.what = mode, what

# ====================================================================================================== comparing
def _close(got, exp, mag):
    if not _is_num(got): return False
    if math.isinf(got): return False
    return abs(got - exp) <= TOL * (abs(exp) + mag) + 1e-12

def _same_cell(got, orig):
    """a cell the filter must leave alone"""
    if orig is None: return got is None
    if _is_nan(orig): return _is_nan(got)
    if isinstance(orig, str): return isinstance(got, str) and got == orig
    return _is_num(got) and got == orig

def _get_rows(spec, rep, out_contexts, ncols, perm=None):
    """-> per row: (cells[list of ncols values], extras) where extras is a list (dense/scalar: appended values,
    sparse: dict of the keys that are not feature keys); raises _Oracle on a malformed context"""
    rows = []
    for i, c in enumerate(out_contexts):
        if rep == "dense":
            try: vals = list(c)
            except TypeError: raise _Oracle("shape", f"row {i}: dense context became {c!r}")
            if len(vals) < ncols: raise _Oracle("shape", f"row {i}: dense context lost features: {vals!r}")
            rows.append(([vals[p] for p in perm] if perm else vals[:ncols], vals[ncols:]))
        elif rep == "sparse":
            try: d = dict(c.items())
            except AttributeError: raise _Oracle("shape", f"row {i}: sparse context became {c!r}")
            keys = [_key(spec, j) for j in range(ncols)]
            cells = [d.get(k, 0) for k in keys]
            rows.append((cells, {k: v for k, v in d.items() if k not in keys}))
        else:
            if isinstance(c, (list, tuple)):
                if not c: raise _Oracle("shape", f"row {i}: scalar context became {c!r}")
                rows.append(([c[0]], list(c[1:])))
            else:
                rows.append(([c], []))
    return rows

def _colfeat(spec, j, nwin, rep):
    """mechanism-level features of one column (for signatures and the distinctness key)"""
    col = [_dec(r[j]) for r in spec["table"]]
    f = [spec["kinds"][j] if spec["kinds"][j] in ("str", "mixed") else "num"]
    win, rest = col[:nwin], col[nwin:]
    if col[0] is None: f.append("none-first")
    if any(v is None for v in win[1:]): f.append("none-later-in-window")
    if any(v is None for v in rest): f.append("none-after-window")
    if _is_nan(col[0]): f.append("nan-first")
    if any(_is_nan(v) for v in win[1:]): f.append("nan-later-in-window")
    if any(_is_nan(v) for v in rest): f.append("nan-after-window")
    if all(_is_missing_scale(v) for v in win): f.append("window-all-missing")
    if rep == "sparse":
        absent = [(_is_num(v) and v == 0 and not spec["keep_zero"][i][j]) for i, v in enumerate(col)]
        if absent[0] and not all(absent): f.append("key-absent-from-first-row")
        if all(absent[:nwin]) and not all(absent): f.append("key-absent-from-window")
    return f

def _cls(v): return "num" if isinstance(v, (int, float)) else str(v)

def _cell_eq(x, y):
    if x is None or y is None: return x is None and y is None
    if _is_nan(x) or _is_nan(y): return _is_nan(x) and _is_nan(y)
    if _is_num(x) and _is_num(y): return x == y           # (1 and 1.0 are the same value)
    return type(x) is type(y) and x == y

def _snapshot(rep, interactions):
    """the value of every context of a sequence (lazy rows are evaluated; that is a read, not a change)"""
    out = []
    for it in interactions:
        c = it["context"]
        out.append(list(c) if rep == "dense" else dict(c.items()) if rep == "sparse" else c)
    return out

def _source_diff(rep, before, after, perm, ncols):
    """-> None or (row, feature column or None, detail)"""
    for i, (x, y) in enumerate(zip(before, after)):
        if rep == "dense":
            if len(x) != len(y): return (i, None, f"{x!r} -> {y!r}")
            for p, (u, v) in enumerate(zip(x, y)):
                if not _cell_eq(u, v):
                    j = (perm.index(p) if perm else p) if p < ncols else None
                    return (i, j, f"{x!r} -> {y!r}")
        elif rep == "sparse":
            if set(x) != set(y): return (i, None, f"{x!r} -> {y!r}")
            for k in x:
                if not _cell_eq(x[k], y[k]): return (i, None, f"{x!r} -> {y!r}")
        elif not _cell_eq(x, y): return (i, 0, f"{x!r} -> {y!r}")
    return None

def _same_outputs(a, b):
    """two reads gave the same thing, field for field and cell for cell (then one verdict holds for both)"""
    if len(a) != len(b): return False
    for x, y in zip(a, b):
        if x.keys() != y.keys(): return False
        for k in x:
            u, v = x[k], y[k]
            if k != "context":
                if not (u == v): return False
            elif type(u) is not type(v): return False
            elif isinstance(u, dict):
                if u.keys() != v.keys() or not all(_cell_eq(u[q], v[q]) for q in u): return False
            elif isinstance(u, (int, float, str)) or u is None:
                if not _cell_eq(u, v): return False
            else:
                try: lu, lv = list(u), list(v)
                except TypeError: return False
                if len(lu) != len(lv) or not all(map(_cell_eq, lu, lv)): return False
    return True

def _run_rep(spec, rep, ctx=None):
    """one representation through the real filter; -> (violations [(mode, detail, column or None)], outputs per column or None)"""
    def note(name, k=1):
        if ctx and k: ctx.count(name, k)
    table = [[_dec(c) for c in r] for r in spec["table"]]
    n, ncols = len(table), len(table[0])
    if rep == "scalar":
        j0 = spec["scalar_col"]; table = [[r[j0]] for r in table]; ncols = 1
    nwin = n if spec["using"] is None else min(spec["using"], n)
    cspec = dict(spec, scalar_col=0) if rep == "scalar" else spec
    try:
        contexts, perm = _contexts(cspec, rep, table)
    except Exception as e:
        return [(f"raise:{type(e).__name__}", f"while building the contexts: {type(e).__name__}: {e}", None)], None
    inputs = _interactions(spec, contexts)
    before = _snapshot(rep, inputs)
    before_keys = [set(it) for it in inputs]
    expect_raise = rep == "sparse" and spec["filter"] == "scale" and spec["shift"] != 0
    decoy = None
    if spec.get("warm"):
        # the same filter object (or one Environments.scale/impute call over two environments) handles another sequence first
        t2 = [[(c * 3 + 7 if _is_num(c) and not _is_nan(c) else c) for c in r] for r in table]
        decoy = _interactions(spec, _contexts(cspec, rep, t2)[0])
        note("oracle.shared-filter-object")
    reads = 1 if expect_raise else spec.get("reads", 1)
    read = None; outputs = None
    for r in range(reads):
        pre = "" if r == 0 else "reread:"
        try:
            if read is None: read = _build(spec, inputs, decoy)
            outs = read()
        except _Oracle as e:
            return [(pre + e.mode, e.what, None)], None
        except Exception as e:
            from coba.exceptions import CobaException
            if expect_raise and isinstance(e, CobaException):
                note("oracle.scale.sparse-shift-raises"); return [], None
            return [(f"{pre}raise:{type(e).__name__}", f"{type(e).__name__}: {e}" + (f" (read #{r+1} of the same sequence)" if r else ""), None)], None
        if expect_raise: return [], None                 # documented to raise; nothing is specified if it does not
        # -------------------------------------------------------------- the sequence that was read is still what it was:
        # whoever holds it (a cache, a materialized environment, the caller) reads it again, with or without the filter
        after_keys = [set(it) for it in inputs]
        d = None
        if after_keys != before_keys: d = (0, None, f"fields of the source interactions {before_keys!r} -> {after_keys!r}")
        else:
            try:
                after = _snapshot(rep, inputs)
                # (cells that are the very same objects / equal values: nothing was written)
                d = None if after == before else _source_diff(rep, before, after, perm, ncols)
            except Exception as e: d = (0, None, f"the source contexts cannot be read any more: {type(e).__name__}: {e}")
        note("oracle.source-untouched")
        if d: return [("source-changed", f"source row {d[0]} after read #{r+1}: {d[2]}", d[1])], None
        if r:
            note("oracle.reread")
            if _same_outputs(first, outs): continue      # cell for cell what the judged first read gave
        viol, outputs = _judge(spec, rep, table, n, ncols, nwin, inputs, outs, perm, note if r == 0 else (lambda *a: None))
        first = outs
        if viol:
            return [(pre + m, (f"read #{r+1} of the same sequence: " if r else "") + det, col) for m, det, col in viol], None
    return [], outputs

def _judge(spec, rep, table, n, ncols, nwin, inputs, outs, perm, note):
    """the statement's demands on one read; -> (violations [(mode, detail, column or None)], outputs per column or None)"""
    viol = []
    if len(outs) != n: return [("lost-or-extra-interactions", f"{n} interactions in, {len(outs)} out", None)], None
    # ------------------------------------------------------------------ everything but the context is left alone
    for i, (a, b) in enumerate(zip(inputs, outs)):
        if set(a.keys()) != set(b.keys()):
            viol.append(("other-fields-changed", f"row {i}: keys {sorted(a.keys())} -> {sorted(b.keys())}", None)); break
        for k in a:
            if k == "context": continue
            if not (b[k] == a[k]):
                viol.append(("other-fields-changed", f"row {i}: field {k!r} {a[k]!r} -> {b[k]!r}", None)); break
    note("oracle.other-fields")
    if viol: return viol, None
    try:
        rows = _get_rows(spec if rep != "scalar" else dict(spec, scalar_col=0), rep, [o["context"] for o in outs], ncols, perm)
    except _Oracle as e:
        return [(e.mode, e.what, None)], None

    outputs = {}
    if spec["filter"] == "scale":
        for i, (_, extras) in enumerate(rows):
            if extras: return [("extra-features", f"row {i}: Scale added features {extras!r}", None)], None
        for j in range(ncols):
            col = [r[j] for r in table]
            got = [rows[i][0][j] for i in range(n)]
            plan = scale_plan(col, nwin, spec["shift"], spec["scale"])
            outputs[j] = (plan[0], got)
            if plan[0] == "untouched":
                note("oracle.scale.untouched-column")
                bad = [i for i in range(n) if not _same_cell(got[i], col[i])]
                if bad: viol.append(("non-numeric-changed", f"column {j} row {bad[0]}: {col[bad[0]]!r} -> {got[bad[0]]!r}", j))
                continue
            # missing cells stay missing, numbers stay (finite) numbers -- whatever the statistics are
            bad = None
            for i in range(n):
                if col[i] is None and got[i] is not None: bad = (i, "missing-changed")
                elif _is_nan(col[i]) and not _is_nan(got[i]): bad = (i, "missing-changed")
                elif _is_num(col[i]) and not (_is_num(got[i]) and not math.isinf(got[i])):
                    bad = (i, "wrong-value" if _is_nan(got[i]) else "number-became-non-number")
                if bad: break
            if bad:
                viol.append((bad[1], f"column {j} row {bad[0]}: {col[bad[0]]!r} -> {got[bad[0]]!r} (column {col!r} -> {got!r})", j)); continue
            if plan[0] == "unspec":     note("oracle.scale.undefined-statistic-column"); continue
            if plan[0] == "degenerate": note("oracle.scale.degenerate-column"); continue
            _, sh, sc = plan
            nums = [F(v) for v in col if _is_num(v)]
            mag = float(abs(sc) * (max([abs(v) for v in nums] or [0]) + abs(sh)))
            k = 0
            for i in range(n):
                if not _is_num(col[i]): continue
                k += 1
                exp = float((F(col[i]) + sh) * sc)
                if not _close(got[i], exp, mag):
                    viol.append(("wrong-value",
                                 f"column {j} row {i}: {col[i]!r} -> {got[i]!r}, expected {exp!r} = ({col[i]!r} + {float(sh)!r}) * {float(sc)!r}; "
                                 f"window {col[:nwin]!r}", j)); break
            note("oracle.scale.cell", k)
    else:
        stats = spec["stats"] if isinstance(spec["stats"], list) else [spec["stats"]]
        ind_req = []                               # (stage, column): appended stage by stage, in column order within a stage
        for j in range(ncols):
            col = [r[j] for r in table]
            got = [rows[i][0][j] for i in range(n)]
            res, ind_stages = impute_plan(col, nwin, stats, spec["indicator"])
            outputs[j] = ("any-tie" if res[0] == "any" and len(res[1]) > 1 else res[0], got)
            ind_req += [(s, j) for s in ind_stages]
            bad = None; k_imp = k_same = 0
            for i in range(n):
                if not _is_missing(col[i]):
                    k_same += 1
                    if not _same_cell(got[i], col[i]): bad = (i, "non-missing-changed", f"{col[i]!r} -> {got[i]!r}"); break
                elif res[0] == "num":
                    k_imp += 1
                    exp = float(res[1])
                    if not _close(got[i], exp, max([abs(v) for v in col if _is_num(v)] or [0])):
                        bad = (i, "not-imputed" if _is_missing(got[i]) else "wrong-value", f"{col[i]!r} -> {got[i]!r}, expected {exp!r}"); break
                elif res[0] == "any":
                    k_imp += 1
                    if not any(_same_cell(got[i], a) for a in res[1]):
                        bad = (i, "not-imputed" if _is_missing(got[i]) else "wrong-value", f"{col[i]!r} -> {got[i]!r}, expected one of {res[1]!r}"); break
                elif "mode" not in stats and any(isinstance(v, str) for v in col):
                    # a string feature is not imputable by mean / median: it is a non-numeric feature and stays as it is
                    k_same += 1
                    if got[i] is not None: bad = (i, "non-numeric-imputed", f"None -> {got[i]!r} in a string feature"); break
            note("oracle.impute.imputed-cell", k_imp); note("oracle.impute.unchanged-cell", k_same)
            if res[0] == "none": note("oracle.impute.undefined-statistic-column")
            if bad: viol.append((bad[1], f"column {j} row {bad[0]}: {bad[2]}; window {col[:nwin]!r} stats {stats}", j))
        # ---------------------------------------------------------------- indicators
        miss = {j: [1 if _is_missing(table[i][j]) else 0 for i in range(n)] for j in range(ncols)}
        note("oracle.impute.indicator")
        if rep == "sparse":
            req = {f"{_key(spec, j)}_is_missing": j for _, j in ind_req}
            for i, (_, extras) in enumerate(rows):
                e = None
                for k in req:
                    if k not in extras: e = ("indicator-absent", f"row {i}: key {k!r} missing from {extras!r}", req[k]); break
                if not e:
                    for k, v in extras.items():
                        j = req.get(k)
                        if j is None: e = ("indicator-extra", f"row {i}: unexpected key {k!r}={v!r}", None); break
                        if not (_is_num(v) and v == miss[j][i]):
                            e = ("indicator-wrong", f"row {i}: {k!r}={v!r}, feature was {'missing' if miss[j][i] else 'present'}", j); break
                if e: viol.append(e); break
        else:
            widths = {len(ex) for _, ex in rows}
            if len(widths) != 1:
                viol.append(("indicator-ragged", f"rows carry different numbers of indicators: {sorted(widths)}", None))
            else:
                w = widths.pop()
                gotcols = [[rows[i][1][t] for i in range(n)] for t in range(w)]
                order = sorted(ind_req, key=lambda sj: (sj[0], perm[sj[1]] if perm else sj[1]))    # in the order of the features inside the context
                if w != len(order) or not all(all(_is_num(g) and g == m for g, m in zip(gotcols[t], miss[j])) for t, (_, j) in enumerate(order)):
                    mode = "indicator-absent" if w < len(order) else "indicator-extra" if w > len(order) else "indicator-wrong"
                    culprit = None
                    if mode == "indicator-absent":
                        # the first required indicator that is not where it has to be
                        culprit = next((j for t, (_, j) in enumerate(order) if t >= w or not all(_is_num(g) and g == m for g, m in zip(gotcols[t], miss[j]))), order[0][1])
                    viol.append((mode, f"indicator features {gotcols!r}; required for (stage, column) {order}, missingness {miss}", culprit))
    return viol, outputs

# ====================================================================================================== one case
def _sub_spec(spec, j):
    s = dict(spec)
    s["table"] = [[r[j]] for r in spec["table"]]
    s["keep_zero"] = [[r[j]] for r in spec["keep_zero"]]
    s["kinds"] = [spec["kinds"][j]]
    s["scalar_col"] = 0
    return s

def _xrep(spec, a, b):
    """the same column through two representations: -> None or (row, value a, value b).  Columns whose statistic is
    undefined are not compared (the statement defines nothing there, and the repository's own tests pin different
    indicator conventions for them)"""
    (ka, ga), (kb, gb) = a, b
    if "none" in (ka, kb) or "unspec" in (ka, kb) or "any-tie" in (ka, kb): return None
    for i, (x, y) in enumerate(zip(ga, gb)):
        same = (x is None and y is None) or (_is_nan(x) and _is_nan(y)) or (isinstance(x, str) and x == y) or \
               (_is_num(x) and _is_num(y) and abs(x - y) <= 1e-6 * max(abs(x), abs(y), 1.0))
        if not same: return (i, x, y)
    return None

def _modes(spec, rep):
    """all failure modes one representation shows on a case (incl. disagreement with the dense representation)"""
    v, out = _run_rep(spec, rep)
    modes = [m for m, _, _ in v]
    if not modes and out is not None and rep != "dense":
        vd, d = _run_rep(spec, "dense")
        if not vd and d is not None:
            pairs = [(d[j], out[j]) for j in range(len(spec["table"][0]))] if rep == "sparse" else [(d[spec["scalar_col"]], out[0])]
            if any(_xrep(spec, a, b) for a, b in pairs): modes.append("differs-from-dense")
    return modes

def _shrink(spec, rep, mode):
    """reduce a failing case to the mechanism that makes it fail (same representation, same failure mode): entry point,
    single statistic, single column, no indicator, neutral shift/scale, no window, explicit zeros, and every class of
    missing cell that is not needed healed.  -> (reduced spec, labels)"""
    def fails(s):
        try: return mode in _modes(s, rep)
        except Exception: return False
    s = dict(spec); lab = {}
    # the container type of the contexts: is one needed, or the mixture of several in one sequence?
    field, kinds = {"dense": ("dense_as", ["tuple", "list", "lazy", "sparsedense"]), "sparse": ("sparse_as", ["dict", "lazy"])}.get(rep, (None, []))
    if field:
        failing = [k for k in kinds if fails(dict(s, **{field: k}))]
        if len(failing) == len(kinds) or failing[:2] == ["tuple", "list"]: s[field] = failing[0]     # any container
        elif failing: s[field] = failing[0]; lab["as"] = CONTAINER_NAME[failing[0]]
        else: lab["as"] = "mixed-containers" if s.get(field) == "mixed" else CONTAINER_NAME.get(s.get(field), s.get(field))
    if s.get("reads", 1) > 2:
        t = dict(s, reads=2)
        if fails(t): s = t
    if s["via"] == "envs":
        t = dict(s, via="filter")
        if fails(t): s = t
        else: return s, {"envs-only": True}
    if s["filter"] == "impute" and isinstance(s["stats"], list):
        for st in s["stats"]:
            t = dict(s, stats=st)
            if fails(t): s = t; break
    ncols = len(s["table"][0])
    if rep == "scalar": s = _sub_spec(s, s["scalar_col"])
    elif ncols > 1:
        for j in range(ncols):
            t = _sub_spec(s, j)
            if fails(t): s = t; break
    if s["filter"] == "impute" and s["indicator"]:
        t = dict(s, indicator=False)
        if fails(t): s = t
    if s["filter"] == "impute" and not isinstance(s["stats"], list):
        # the statistic is irrelevant ('*') when the failure shows under each of them
        if all(fails(dict(s, stats=st)) for st in STATS if st != s["stats"]): lab["stat"] = "*"
    if s["filter"] == "scale":
        # shift / scale are irrelevant ('*') when the failure survives replacing them by a value of the other class
        # (a given number <-> a statistic); sparse contexts only admit shift 0
        # (a failure that is about what gets written, and where, needs alternatives that still change the values)
        writes = mode == "source-changed" or mode.startswith("reread:")
        given = lambda v: isinstance(v, (int, float))
        if rep != "sparse":
            for alt in ((("mean", "min") if given(s["shift"]) else (2,)) if writes else (0,) if s["shift"] != 0 else ("mean", "min")):
                t = dict(s, shift=alt)
                if fails(t): s = t; lab["shift"] = "*"; break
        else: lab["shift"] = "*"
        for alt in ((("minmax", "maxabs") if given(s["scale"]) else (0.5,)) if writes else (1,) if s["scale"] != 1 else ("minmax", "std")):
            t = dict(s, scale=alt)
            if fails(t): s = t; lab["scale"] = "*"; break
    if len(s["table"][0]) == 1 and (mode.split(":")[0] in ("raise", "reread", "source-changed", "shape")):
        # the content of the column is irrelevant ('*') when a plain column of distinct positive integers fails the same way
        # (Impute only writes where something is missing: there the plain column has its last value missing)
        plain = [[i + 1] for i in range(s["n"])]
        cands = [plain] + ([plain[:-1] + [[None]]] if s["filter"] == "impute" and (mode == "source-changed" or mode.startswith("reread:")) else [])
        for tab in cands:
            t = dict(s, table=tab, kinds=["int"])
            if fails(t): s = t; lab["col"] = "*"; break
    if len(s["table"][0]) == 1:
        if s["using"] is not None:
            t = dict(s, using=None)
            if fails(t): s = t
        n = s["n"]; nwin = n if s["using"] is None else min(s["using"], n)
        col = [r[0] for r in s["table"]]
        fill = next((c for c in col if c is not None and c != "nan"), 1)
        for missing in (None, "nan"):
            for lo, hi in ((0, 1), (1, nwin), (nwin, n)):
                if not any(col[i] == missing or (missing is None and col[i] is None) for i in range(lo, hi)): continue
                new = [fill if (lo <= i < hi and ((missing is None and c is None) or (missing == "nan" and c == "nan"))) else c for i, c in enumerate(col)]
                t = dict(s, table=[[c] for c in new])
                if fails(t): s = t; col = new
        if rep == "sparse":
            t = dict(s, keep_zero=[[True] for _ in range(n)])
            if fails(t): s = t
    return s, lab

CONTAINER_NAME = {"tuple": "tuple", "list": "list", "lazy": "LazyDense", "lazy-callable": "LazyDense", "sparsedense": "SparseDense",
                  "densify": "SparseDense", "dict": "dict"}
FEATURE_PRIORITY = ["nan-first", "nan-later-in-window", "statistic-undefined", "none-first", "none-later-in-window", "window-all-missing",
                    "key-absent-from-window", "key-absent-from-first-row", "nan-after-window", "none-after-window"]

def _signature(spec, rep, mode, col):
    """mechanism-level signature: built from the *reduced* failing case (see _shrink), never from values or sizes:
    filter / representation(s) that fail / the configuration that is needed / kind of the column and the one most
    specific special feature it still needs / failure mode"""
    s, lab = _shrink(spec, rep, mode)
    if lab.get("envs-only"):
        what = "list-of-stats" if (s["filter"] == "impute" and isinstance(s["stats"], list) and len(s["stats"]) > 1) else "single"
        m = mode if mode.startswith("raise") or mode == "envs-count" else "differs-from-filters-applied-in-order"
        return f"{s['filter']}/Environments-only/{what}/mode={m}"
    n = s["n"]; nwin = n if s["using"] is None else min(s["using"], n)
    j = 0 if len(s["table"][0]) == 1 else col
    if j is None: feats = "several-columns"
    else:
        f = _colfeat(s, j, nwin, rep)
        if s["filter"] == "impute":
            stats = s["stats"] if isinstance(s["stats"], list) else [s["stats"]]
            colv = [_dec(r[j]) for r in s["table"]]
            if any(_is_missing(v) for v in colv[:nwin]) and impute_plan(colv, nwin, stats, False)[0][0] == "none":
                f.append("statistic-undefined")            # missing values in the window that no statistic can replace
        special = [x for x in FEATURE_PRIORITY if x in f]
        feats = "*" if lab.get("col") else f[0] + ("+" + {"nan-first": "nan-in-window", "nan-later-in-window": "nan-in-window"}.get(special[0], special[0]) if special else "")
    # which representations show the same failure mode on the reduced case
    where = rep
    if mode != "differs-from-dense" and j is not None and len(s["table"][0]) == 1:
        failing = []
        for r in ("dense", "sparse", "scalar"):
            if r == "sparse" and s["filter"] == "scale" and s["shift"] != 0: continue
            try:
                if r == rep or mode in _modes(s, r): failing.append(r)
            except Exception: pass
        where = "all-representations" if len(failing) >= (2 if (s["filter"] == "scale" and s["shift"] != 0) else 3) else "+".join(failing)
    if lab.get("as"): where += f"[{'LazySparse' if (rep == 'sparse' and lab['as'] == 'LazyDense') else lab['as']}]"
    if s["filter"] == "scale":
        if feats != "*" and ("+" in feats or feats == "several-columns" or not feats.startswith("num")):
            # a special column triggers it: only say whether statistics are involved at all
            cfg = "given-numbers" if isinstance(s["shift"], (int, float)) and isinstance(s["scale"], (int, float)) else "statistics"
        else:
            # a plain numeric column: the mechanism is in the configuration -> name what cannot be replaced
            norm = lambda v: "given" if isinstance(v, (int, float)) else "median" if v == "med" else v
            cfg = f"shift={lab.get('shift') or norm(s['shift'])}/scale={lab.get('scale') or norm(s['scale'])}"
    else:
        st = s["stats"]
        cfg = f"stat={'list' if isinstance(st, list) and len(st) > 1 else st[0] if isinstance(st, list) else lab.get('stat') or st}" + ("/indicator" if s["indicator"] else "")
    return f"{s['filter']}/{where}/{cfg}/col={feats}/mode={mode}"

def _reps(spec):
    return ["dense", "sparse", "scalar"]

def check_case(spec, ctx=None):
    viol = []
    n = spec["n"]; nwin = n if spec["using"] is None else min(spec["using"], n)
    ncols = len(spec["table"][0])
    results = {}
    for rep in _reps(spec):
        v, outputs = _run_rep(spec, rep, ctx)
        results[rep] = outputs
        if ctx:
            feats = tuple(sorted(tuple(_colfeat(spec, j, nwin, rep)) for j in ([spec["scalar_col"]] if rep == "scalar" else range(ncols))))
            cfg = ((_cls(spec["shift"]), _cls(spec["scale"])) if spec["filter"] == "scale"
                   else (tuple(spec["stats"]) if isinstance(spec["stats"], list) else spec["stats"], spec["indicator"]))
            ucls = ("none" if spec["using"] is None else "one" if spec["using"] == 1 else "shorter" if spec["using"] < n
                    else "equal" if spec["using"] == n else "longer")
            nontrivial = bool(outputs) and any(kind in ("affine", "num", "any", "any-tie") for kind, _ in outputs.values())
            cont = spec.get("dense_as") if rep == "dense" else spec.get("sparse_as") if rep == "sparse" else "value"
            ctx.case((spec["filter"], cfg, ucls, rep, cont, spec["via"], feats), nontrivial=nontrivial)
            if outputs is not None:
                if rep == "dense" and (cont in ("sparsedense", "densify") or (cont == "mixed" and "sparsedense" in spec["dense_rows"])):
                    ctx.count("reach.densified-context")
                    if spec.get("reads", 1) > 1: ctx.count("reach.densified-context-reread")
                if cont == "mixed" and len(set(spec["dense_rows" if rep == "dense" else "sparse_rows"])) > 1:
                    ctx.count("reach.mixed-containers." + rep)
                if spec["filter"] == "impute" and any("nan-first" in f or "nan-later-in-window" in f for f in feats):
                    ctx.count("reach.impute.nan-in-window")
                if spec["via"] == "envs":
                    ctx.count("oracle.envs." + spec["filter"])
                    if spec["filter"] == "impute" and isinstance(spec["stats"], list) and len(spec["stats"]) > 1: ctx.count("oracle.envs.impute.list")
                if ucls in ("shorter", "longer", "one"): ctx.count("reach.using-" + ("1" if ucls == "one" else ucls))
                for f in feats:
                    if "none-first" in f: ctx.count("reach.none-first-row")
                    if "nan-first" in f or "nan-later-in-window" in f: ctx.count("reach.nan-in-window")
                    if "key-absent-from-first-row" in f: ctx.count("reach.sparse-key-absent-from-first-row")
        for mode, detail, col in v[:1]:            # one report per representation: the first thing that went wrong
            viol.append((_signature(spec, rep, mode, col), f"[{rep}] {detail}"))
    # ------------------------------------------------------------------ dense / sparse / scalar must agree
    d, sp, c = results.get("dense"), results.get("sparse"), results.get("scalar")
    if d and sp and not viol:
        for j in range(ncols):
            if ctx: ctx.count("oracle.xrep.dense-sparse")
            r = _xrep(spec, d[j], sp[j])
            if r:
                viol.append((_signature(spec, "sparse", "differs-from-dense", j), f"column {j} row {r[0]}: dense gives {r[1]!r}, sparse gives {r[2]!r}")); break
    if d and c and not viol:
        if ctx: ctx.count("oracle.xrep.dense-scalar")
        r = _xrep(spec, d[spec["scalar_col"]], c[0])
        if r: viol.append((_signature(spec, "scalar", "differs-from-dense", spec["scalar_col"]),
                           f"column {spec['scalar_col']} row {r[0]}: dense gives {r[1]!r}, scalar gives {r[2]!r}"))
    return viol

# ====================================================================================================== entry points
def run_shard(ctx):
    import warnings
    warnings.simplefilter("ignore")
    i = 0
    while i < ctx.n and ctx.time_left() > 0:
        spec = gen_case(ctx.rng)
        v = check_case(spec, ctx)
        if i < 2: ctx.sample({k: spec[k] for k in spec if k != "keep_zero"})
        for sig, what in v:
            ctx.violation(sig, what, spec)
        i += 1
    ctx.count("cases", i)
    if i < ctx.n: ctx.extra["cases_skipped_for_time"] = ctx.n - i

def replay(witness):
    return check_case(witness)
