"""C19 part F -- the OpenML client (coba/environments/openml.py) as a caller of the shared cache.

OpenmlSource is the production client of CobaContext.cacher: four entries per data set (task / data / feat / arff), each populated by an
HTTP getter inside ConcurrentCacher.get_set, the arff entry read lazily (its read lock is held for the whole read).  Offline, the name
`coba.environments.openml.HttpSource` is re-bound to a canned source that (a) serves generated answers per URL, (b) counts requests per
URL, (c) can fail part-way through an answer and (d) sleeps at seeded points (schedule perturbation).  `coba.context.cachers.time` is
re-bound so that lock retries take half a millisecond.

Observed / decided (M-numbers as in vf/props/c19.py):
  M2  a URL is requested at most once while its entry stays cached (requests <= 1 + number of times the entry was cleared)
  M3  every reader receives the complete table (all rows, right features, right labels) or an exception -- never a shorter / other table
  M4  after all readers have finished (normally, through a failing getter, through a failing body, abandoned part-way) every lock
      counter is zero and no per-thread bookkeeping is left
  M5  no reader is still running after the (generous) watchdog -> inconclusive, unless all are parked in lock retries -> deadlock
  M6  after an HTTP answer that failed part-way / a cache file cut at any byte, a later healthy read gives the complete table
"""
import os, sys, time, json, random, threading, tempfile, shutil, gc
from collections import Counter

def make_dataset(rng, data_id):
    """a small classification data set the way OpenML serves it (JSON descriptions + dense ARFF)"""
    ncols = rng.choice([2, 3, 4]); nrows = rng.choice([3, 5, 8, 13])
    names = [f"f{i}" for i in range(ncols)]
    kinds = [rng.choice(["numeric", "nominal"]) for _ in names]
    ignore = [rng.random() < .2 for _ in names]
    if all(ignore): ignore[0] = False
    levels = ["u", "v", "w"]
    rows = []
    for r in range(nrows):
        row = [(rng.randrange(-5, 50) if k == "numeric" else rng.choice(levels)) for k in kinds]
        rows.append(row + [rng.choice(["yes", "no", "maybe"])])
    arff = [f"@relation d{data_id}"] + [f"@attribute {n} {'numeric' if k == 'numeric' else '{' + ','.join(levels) + '}'}" for n, k in zip(names, kinds)]
    arff += ["@attribute class {yes,no,maybe}", "@data"] + [",".join(str(v) for v in row) for row in rows]
    feats = [{"index": str(i), "name": n, "data_type": k, "is_target": "false", "is_ignore": "true" if ig else "false", "is_row_identifier": "false"}
             for i, (n, k, ig) in enumerate(zip(names, kinds, ignore))]
    feats.append({"index": str(ncols), "name": "class", "data_type": "nominal", "is_target": "true", "is_ignore": "false", "is_row_identifier": "false"})
    descr = {"data_set_description": {"id": str(data_id), "name": f"d{data_id}", "file_id": str(1000 + data_id), "default_target_attribute": "class", "status": "active"}}
    expected = [([float(v) if k == "numeric" else v for v, k, ig in zip(row[:-1], kinds, ignore) if not ig], row[-1]) for row in rows]
    urls = {f"https://openml.org/api/v1/json/data/{data_id}": [json.dumps(descr)],
            f"https://openml.org/api/v1/json/data/features/{data_id}": [json.dumps({"data_features": {"feature": feats}})],
            f"https://openml.org/data/v1/download/{1000 + data_id}": arff}
    return {"data_id": data_id, "urls": urls, "expected": expected, "arff_url": f"https://openml.org/data/v1/download/{1000 + data_id}"}

class HttpBoom(OSError): pass
class BodyBoom(Exception): pass

class FakeWeb:
    """what `HttpSource(url, timeout=, chunk_size=).read()` answers"""
    def __init__(self, seed):
        self.answers, self.requests, self.fail, self.lock = {}, Counter(), {}, threading.Lock()
        self.rng = random.Random(seed); self.jitter = 0.0
    def source_class(web):
        class FakeHttpSource:
            def __init__(self, url, chunk_size=None, timeout=None): self.url = url.split("?")[0]
            def read(self):
                with web.lock:
                    web.requests[self.url] += 1
                    fail_at = web.fail.pop(self.url, None)      # one-shot failure
                    j = web.rng.random() * web.jitter
                if self.url not in web.answers: raise HttpBoom(f"no route to {self.url}")
                for i, line in enumerate(web.answers[self.url]):
                    if fail_at is not None and i == fail_at: raise HttpBoom(f"connection lost at line {i} of {self.url}")
                    if j: time.sleep(j / 4)
                    yield line
                if fail_at is not None and fail_at >= len(web.answers[self.url]): raise HttpBoom(f"connection lost at the end of {self.url}")
        return FakeHttpSource

def _read_rows(src, abandon_after=None, body_fail_at=None):
    out = []
    it = iter(src.read())
    try:
        for i, row in enumerate(it):
            if body_fail_at is not None and i == body_fail_at: raise BodyBoom(f"body failed at row {i}")
            feats, label = row.feats, row.label
            out.append((list(feats), label))
            if abandon_after is not None and len(out) >= abandon_after: break
    finally:
        if hasattr(it, "close"): it.close()
    return out

def _quiescent(cacher):
    bad = []
    nz = [(i, v) for i, v in enumerate(cacher._array) if v != 0]
    if nz: bad.append(f"lock counters not zero: {nz[:4]}")
    held = {k: v for k, v in cacher._locks.items() if v != 0}
    if held: bad.append(f"per-thread lock bookkeeping not zero: {list(held.items())[:4]}")
    return bad

def run(ctx, rng, runs):
    import coba.context.cachers as cc
    import coba.environments.openml as om
    from coba.context import CobaContext
    viol = []
    class FastTime:
        @staticmethod
        def sleep(s): time.sleep(.0005)
        @staticmethod
        def time(): return time.time()
    old_time, old_http, old_cacher, old_omtime = cc.time, om.HttpSource, CobaContext._cacher, om.time
    cc.time = FastTime
    tmp = tempfile.mkdtemp(prefix="vf-c19-oml-")
    try:
        for r in range(runs):
            web = FakeWeb(rng.randrange(1 << 30)); web.jitter = rng.choice([0, .002, .01])
            om.HttpSource = web.source_class()
            inner_kind = rng.choice(["disk", "disk", "memory"])
            d = os.path.join(tmp, f"r{r}"); os.makedirs(d, exist_ok=True)
            inner = cc.DiskCacher(d) if inner_kind == "disk" else cc.MemoryCacher()
            removed = Counter(); rm_lock = threading.Lock(); inner_rmv = inner.rmv
            def counting_rmv(key, inner=inner, inner_rmv=inner_rmv):
                # (runs under the write lock of the key: an entry that was really there and is now gone may be fetched once more)
                if key in inner:
                    with rm_lock: removed[key] += 1
                return inner_rmv(key)
            inner.rmv = counting_rmv
            cacher = cc.ConcurrentCacher(inner)
            CobaContext.cacher = cacher
            sets = [make_dataset(rng, 40 + r * 3 + i) for i in range(rng.choice([1, 2]))]
            for ds in sets: web.answers.update(ds["urls"])
            mode = rng.choice(["healthy", "http-fault", "body-fault", "abandon", "file-cut"] if inner_kind == "disk" else ["healthy", "http-fault", "body-fault", "abandon"])
            nthreads = rng.choice([1, 2, 3, 4])
            cleared = Counter()
            fault_url = None
            if mode == "http-fault":
                ds = rng.choice(sets); fault_url = rng.choice(sorted(ds["urls"]))
                web.fail[fault_url] = rng.randrange(len(ds["urls"][fault_url]) + 1)
            if mode == "file-cut":
                # a complete first read fills the cache; then the arff file is cut at a seeded byte (a writer killed part-way)
                ds = sets[0]
                try: rows = _read_rows(om.OpenmlSource(data_id=ds["data_id"]))
                except Exception as e:
                    viol.append((f"F/openml/{inner_kind}/healthy-read-raised:{type(e).__name__}", f"first read of a reachable data set raised {e}")); continue
                path = os.path.join(d, f"openml_{ds['data_id']:0>6}_arff.gz")
                blob = open(path, "rb").read(); cut = rng.randrange(len(blob))
                with open(path, "wb") as f: f.write(blob[:cut])
                ctx.count("openml.file-cut")
            results, errs = [], []
            def reader(seed):
                wr = random.Random(seed)
                for _ in range(wr.choice([1, 2])):
                    ds = wr.choice(sets)
                    kw = {}
                    if mode == "abandon" and wr.random() < .6: kw["abandon_after"] = wr.randrange(1, len(ds["expected"]) + 1)
                    if mode == "body-fault" and wr.random() < .6: kw["body_fail_at"] = wr.randrange(len(ds["expected"]))
                    try:
                        rows = _read_rows(om.OpenmlSource(data_id=ds["data_id"], drop_missing=wr.random() < .5), **kw)
                        results.append((ds, kw, rows))
                    except (HttpBoom, BodyBoom, EOFError, OSError, UnicodeDecodeError) as e:
                        errs.append((ds, kw, e))
                    except Exception as e:
                        errs.append((ds, kw, e))
            ths = [threading.Thread(target=reader, args=(rng.randrange(1 << 30),), daemon=True) for _ in range(nthreads)]
            for t in ths: t.start()
            for t in ths: t.join(60)
            ctx.count("openml.runs"); ctx.case(("openml", inner_kind, mode, nthreads, len(sets)))
            if any(t.is_alive() for t in ths):
                ctx.note_inconclusive("openml-part-watchdog"); continue
            gc.collect()
            # M3: complete table or an exception
            for ds, kw, rows in results:
                ctx.count("openml.M3.complete-table")
                want = ds["expected"] if kw.get("abandon_after") is None else ds["expected"][:kw["abandon_after"]]
                if rows != want:
                    viol.append((f"M3/openml/{inner_kind}/{mode}/reader-got-another-table", f"read {rows[:3]}.. ({len(rows)} rows), expected {want[:3]}.. ({len(want)} rows)"))
            for ds, kw, e in errs:
                ctx.count("openml.reader-raised")
                expected_err = (mode == "http-fault" and isinstance(e, HttpBoom)) or (mode == "body-fault" and isinstance(e, BodyBoom)) or mode == "file-cut"
                if mode == "http-fault" and not isinstance(e, HttpBoom) and "unrecoverable" not in str(e): expected_err = isinstance(e, (EOFError, OSError, ValueError, KeyError))
                if not expected_err:
                    viol.append((f"F/openml/{inner_kind}/{mode}/reader-raised:{type(e).__name__}", f"{type(e).__name__}: {str(e)[:200]}"))
            # M2: requests per URL: one, plus one for every time the entry was removed, plus one for every fetch that failed (a failed
            #     fetch leaves no entry) -- a cut cache file is removed by the cacher / the client and counted as a removal
            for url, n in web.requests.items():
                ctx.count("openml.M2.requests")
                did = url.rsplit("/", 1)[1]
                key = f"openml_{int(did) - 1000:0>6}_arff" if "/download/" in url else f"openml_{int(did):0>6}_{'feat' if '/features/' in url else 'data'}"
                allowed = 1 + removed[key] + (1 if url == fault_url else 0) + (1 if mode == "file-cut" and key.endswith("_arff") else 0)
                if n > allowed:
                    viol.append((f"M2/openml/{inner_kind}/{mode}/url-requested-more-often-than-its-entry-was-removed", f"{url} requested {n}x, its entry {key} was removed {removed[key]}x, {len(errs)} failed reads"))
            # M4: quiescence
            ctx.count("openml.M4.quiescence")
            for b in _quiescent(cacher):
                viol.append((f"M4/openml/{inner_kind}/{mode}/{'counters' if 'counters' in b else 'bookkeeping'}-not-zero-at-quiescence", b))
            # M6: afterwards a healthy read gives the complete table (the web is healthy again: one-shot faults are spent)
            web.fail.clear()
            for ds in sets:
                try:
                    rows = _read_rows(om.OpenmlSource(data_id=ds["data_id"]))
                    ctx.count("openml.M6.healthy-read-after")
                    if rows != ds["expected"]:
                        viol.append((f"M6/openml/{inner_kind}/{mode}/partial-entry-served-as-complete", f"after the run a healthy read gives {len(rows)} rows {rows[:2]}.., expected {len(ds['expected'])}"))
                except Exception as e:
                    if mode == "file-cut":
                        # a cut file may make THIS read raise (the corrupted entry is cleared by the client); the one after must be complete
                        try:
                            rows = _read_rows(om.OpenmlSource(data_id=ds["data_id"]))
                            ctx.count("openml.M6.healthy-read-after")
                            if rows != ds["expected"]:
                                viol.append((f"M6/openml/{inner_kind}/{mode}/partial-entry-served-as-complete", f"second read after a cut file gives {len(rows)} rows, expected {len(ds['expected'])}"))
                        except Exception as e2:
                            viol.append((f"M6/openml/{inner_kind}/{mode}/corrupted-entry-never-cleared:{type(e2).__name__}", f"first read after the cut raised {type(e).__name__}: {e}; the second {type(e2).__name__}: {str(e2)[:200]}"))
                    else:
                        viol.append((f"M6/openml/{inner_kind}/{mode}/healthy-read-after-raised:{type(e).__name__}", f"{type(e).__name__}: {str(e)[:200]}"))
            gc.collect()
            for b in _quiescent(cacher):
                viol.append((f"M4/openml/{inner_kind}/{mode}/{'counters' if 'counters' in b else 'bookkeeping'}-not-zero-after-healthy-reads", b))
    finally:
        cc.time, om.HttpSource, CobaContext._cacher, om.time = old_time, old_http, old_cacher, old_omtime
        shutil.rmtree(tmp, ignore_errors=True)
    return viol
