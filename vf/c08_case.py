"""Runs ONE C08 case in its own process:  python -m vf.c08_case <spec.json> <out.json>
   The parent (vf.props.c08) applies a generous wall-clock timeout; this process has its own watchdog that,
   when it fires, inspects whether a logical deadlock state has been reached (DESIGN 2.5)."""
import sys, os, json, time, random, threading, traceback, faulthandler

def install_perturbation(spec, stats):
    prof = spec["perturb"]
    if prof["kind"] == "none": return
    import sys as _s
    mon = _s.monitoring
    TOOL = 3
    mon.use_tool_id(TOOL, "vf-c08")
    rng = random.Random(spec["perturb_seed"])
    from coba.pipes import multiprocessing as cmp, lines, sinks, sources
    codes_line, codes_instr = [], []
    closures = [c for c in cmp.Multiprocessor.filter.__code__.co_consts if hasattr(c, "co_name")]
    for c in closures:
        codes_line.append(c)
        if prof["kind"] == "instr": codes_instr.append(c)
    codes_line += [cmp.Multiprocessor.filter.__code__, lines.ThreadLine.run.__code__, lines.ProcessLine.join.__code__,
                   lines.ProcessLine._get_result.__code__, sinks.QueueSink.write.__code__, sources.QueueSource.read.__code__,
                   cmp.Stopper.filter.__code__]
    for c in lines.ProcessLine.start.__code__.co_consts + lines.ThreadLine.start.__code__.co_consts:
        if hasattr(c, "co_name"): codes_line.append(c)          # join_and_call
    if prof.get("slow_start"):                                  # a slow process launch widens the window in which a retired worker
        codes_line += [lines.ProcessLine.start.__code__, cmp.MyProcessLine.start.__code__]   # has gone and its replacement is not there yet
    p_line, p_instr, dmax = prof.get("p_line", .25), prof.get("p_instr", .1), prof.get("max_ms", 3) / 1000.0
    def on_line(code, line):
        stats["line_events"] += 1
        if rng.random() < p_line:
            stats["line_sleeps"] += 1
            time.sleep(rng.random() * dmax)
    def on_instr(code, off):
        stats["instr_events"] += 1
        if rng.random() < p_instr:
            stats["instr_sleeps"] += 1
            time.sleep(rng.random() * dmax)
    mon.register_callback(TOOL, mon.events.LINE, on_line)
    mon.register_callback(TOOL, mon.events.INSTRUCTION, on_instr)
    for c in codes_line:  mon.set_local_events(TOOL, c, mon.events.LINE | (mon.events.INSTRUCTION if c in codes_instr else 0))

def main():
    spec = json.load(open(sys.argv[1])); outp = sys.argv[2]
    res = {"status": "started", "got": [], "raised": None, "events": [], "stats": {}}
    if spec.get("fd_headroom"):
        # a long run of worker replacements under a low descriptor limit: descriptors kept per finished worker run out
        import resource
        soft, hard = resource.getrlimit(resource.RLIMIT_NOFILE)
        now = len(os.listdir("/proc/self/fd"))
        lim = now + int(spec["fd_headroom"])
        if hard != resource.RLIM_INFINITY: lim = min(lim, hard)
        resource.setrlimit(resource.RLIMIT_NOFILE, (lim, hard))
        res["fd_limit"] = lim
    stats = {"line_events": 0, "line_sleeps": 0, "instr_events": 0, "instr_sleeps": 0}
    def finish(code=0):
        res["stats"] = stats
        with open(outp + ".tmp", "w") as f: json.dump(res, f, default=repr)
        os.replace(outp + ".tmp", outp)
        sys.stdout.flush()
        # daemonic workers left blocked on the input queue (abandonment, hangs) must not outlive the case
        try:
            import multiprocessing
            for w in multiprocessing.active_children():
                try: w.kill()
                except Exception: pass
        except Exception: pass
        os._exit(code)

    import coba.pipes.multiprocessing as cmp
    import vf.components as comp
    RecPL = comp.RecProcessLine
    cmp.MyProcessLine = RecPL
    if spec.get("finish_during_replacement"): RecPL.slow_replacement_s, RecPL.n_initial = .4, spec["n"]
    install_perturbation(spec, stats)

    main_ident = threading.get_ident()
    phase = {"name": "init"}

    def watchdog():
        time.sleep(spec["watchdog_s"])
        # ---- logical deadlock-state inspection
        frames = sys._current_frames()
        def stack(ident):
            f, out = frames.get(ident), []
            while f: out.append((os.path.basename(f.f_code.co_filename), f.f_code.co_name, f.f_lineno)); f = f.f_back
            return out
        mst = stack(main_ident)
        threads = [(t.name, t.is_alive(), getattr(t, "_target", None).__name__ if getattr(t, "_target", None) else type(t).__name__) for t in threading.enumerate()]
        workers = [(w._vf_ord, w.is_alive(), w.exitcode) for w in RecPL._all]
        loader_alive = any(kind == "ThreadLine" and alive for _, alive, kind in threads)
        cb_alive     = any(kind == "join_and_call" and alive for _, alive, kind in threads)
        main_in_get  = any(fn == "queues.py" and name == "get" for fn, name, _ in mst)
        all_dead     = bool(workers) and all(not alive for _, alive, _ in workers)
        res["watchdog"] = {"phase": phase["name"], "threads": threads, "workers": workers, "main_stack": mst[:12],
                           "n_procs": getattr(mp_obj.get("mp"), "_n_procs", None), "loader_alive": loader_alive,
                           "callback_thread_alive": cb_alive, "main_blocked_in_queue_get": main_in_get, "all_workers_dead": all_dead,
                           "n_got": len(res["got"])}
        res["status"] = "deadlock" if (all_dead and not loader_alive and not cb_alive and main_in_get) else "watchdog-inconclusive"
        if res["status"] != "deadlock" and main_in_get and not loader_alive and workers:
            # second deadlock shape: some workers are still alive but can never make progress -- the loader has finished,
            # both queues are empty, every live worker sleeps without consuming CPU (blocked reading the input queue) and
            # every live callback thread merely waits for one of those workers.  No transition is enabled.
            try:
                g, qs = mp_obj.get("gen"), None
                while g is not None and qs is None:
                    fl = g.gi_frame.f_locals if getattr(g, "gi_frame", None) else {}
                    if "in_queue" in fl and "out_queue" in fl: qs = (fl["in_queue"], fl["out_queue"])
                    g = getattr(g, "gi_yieldfrom", None)
                def cpu(pid):
                    a = open(f"/proc/{pid}/stat").read().rsplit(")", 1)[1].split()
                    return a[0], int(a[11]) + int(a[12])
                live = [w for w in RecPL._all if w.is_alive()]
                s1 = [cpu(w.pid) for w in live]; time.sleep(1.5); s2 = [cpu(w.pid) for w in live]
                idle = all(a == b and a[0] == "S" for a, b in zip(s1, s2)) and all(w.is_alive() for w in live)
                n_cb = sum(1 for _, alive, kind in threads if kind == "join_and_call" and alive)
                empty = qs is not None and qs[0].qsize() == 0 and qs[1].qsize() == 0
                res["watchdog"].update({"live_workers": len(live), "live_workers_idle": idle, "queues_empty": empty, "live_callback_threads": n_cb})
                if live and idle and empty and n_cb <= len(live):
                    res["status"] = "deadlock"
                    res["watchdog"]["shape"] = "live-workers-starved"
            except Exception as e:
                res["watchdog"]["inspect_error"] = repr(e)
        if res["status"] != "deadlock" and all_dead and not loader_alive and main_in_get and cb_alive:
            # fourth deadlock shape: no worker PROCESS is left (nobody else can write to the output queue or release a cross-process
            # lock), the loader has finished, the caller waits for an output, and every other thread of this process stands still:
            # two samples of all stacks taken 2 s apart are identical (a completion callback blocked for ever on the queue's write
            # lock that a worker took with it when it was killed mid-write, feeder threads waiting for work).  No transition is enabled.
            try:
                me = threading.get_ident()
                def snap():
                    fr = sys._current_frames()
                    out = {}
                    for t in threading.enumerate():
                        if t.ident == me: continue
                        f, st = fr.get(t.ident), []
                        while f and len(st) < 8: st.append((os.path.basename(f.f_code.co_filename), f.f_code.co_name, f.f_lineno)); f = f.f_back
                        out[t.ident] = st
                    return out
                s1 = snap(); time.sleep(2.0); s2 = snap()
                res["watchdog"]["all_threads_stand_still"] = (s1 == s2)
                res["watchdog"]["worker_exitcodes"] = [w.exitcode for w in RecPL._all]
                if s1 == s2 and all(not w.is_alive() for w in RecPL._all):
                    res["status"] = "deadlock"
                    res["watchdog"]["shape"] = "all-workers-dead-callback-blocked" + ("+worker-killed-by-signal" if any((w.exitcode or 0) < 0 for w in RecPL._all) else "")
            except Exception as e:
                res["watchdog"]["inspect_error"] = repr(e)
        if res["status"] != "deadlock" and all_dead and loader_alive and not main_in_get:
            # third deadlock shape: no worker is left to consume, the loader thread is blocked putting into the full input
            # queue and the caller is blocked waiting for the loader thread (join) -- nobody can ever drain the queue
            try:
                lt = [t for t in threading.enumerate() if type(t).__name__ == "ThreadLine" and t.is_alive()]
                lst = stack(lt[0].ident) if lt else []
                loader_in_put = any(fn == "queues.py" and name == "put" for fn, name, _ in lst)
                main_in_join = any(fn == "threading.py" and name in ("join", "_wait_for_tstate_lock") for fn, name, _ in mst)
                n_cb = sum(1 for _, alive, kind in threads if kind == "join_and_call" and alive)
                res["watchdog"].update({"loader_blocked_in_put": loader_in_put, "main_blocked_in_join": main_in_join})
                if loader_in_put and main_in_join and n_cb <= 1:
                    res["status"] = "deadlock"; res["watchdog"]["shape"] = "loader-blocked-on-full-queue-while-caller-joins-it"
            except Exception as e:
                res["watchdog"]["inspect_error3"] = repr(e)
        res["events"] = [list(e) for e in comp.LINEAGE_LOG]
        finish(0)
    mp_obj = {}
    threading.Thread(target=watchdog, daemon=True).start()

    try:
        rngc = random.Random(spec["perturb_seed"] + 17)
        filt = comp.C08Filter(spec["mode"], {int(k): v for k, v in spec["kmap"].items()}, spec["raising"], spec["side"],
                              spec["perturb_seed"], spec["worker_jitter_ms"], spec.get("exc_type", "ValueError"))
        filt.none_uid = (spec.get("none_items") or [None])[0]
        filt.none_out = set(spec.get("none_outputs") or [])
        filt.big_kb = int(spec.get("big_out_kb") or 0)
        none_at = set(spec.get("none_items") or [])       # None is a legal ITEM (only queue payloads use None as the pill)
        def source():
            for uid in range(spec["n_items"]):
                if spec["loader_jitter_ms"] and rngc.random() < .5: time.sleep(rngc.random() * spec["loader_jitter_ms"] / 1000.0)
                if spec.get("tail_delay_ms") and uid >= spec["n_items"] - 2: time.sleep(rngc.random() * spec["tail_delay_ms"] / 1000.0)   # late last items
                if spec.get("finish_during_replacement") and uid == spec["n_items"] - 1:
                    # the last item arrives while a retired worker is being replaced (bounded wait for that moment)
                    t_end = time.time() + 3
                    while time.time() < t_end and not any(e[0] == "start" and e[1] >= spec["n"] for e in list(comp.LINEAGE_LOG)): time.sleep(.005)
                    time.sleep(.05)
                res["events"].append(("loaded", uid))
                yield None if uid in none_at else (uid, "p" * (uid % 7))
        if spec["via"] == "coba":
            from coba.multiprocessing import CobaMultiprocessor
            from coba.context import CobaContext, NullLogger
            mp = CobaMultiprocessor(filt, spec["n"], spec["m"])
        else:
            mp = cmp.Multiprocessor(filt, spec["n"], spec["m"])
        mp_obj["mp"] = mp
        phase["name"] = "consume"
        gen = mp.filter(source())
        mp_obj["gen"] = gen
        try:
            it = iter(gen)
            abandon = spec["abandon"]
            if abandon is not None and abandon == 0:
                pass
            else:
                for o in it:
                    res["got"].append(["None", -1, 0] if o is None else list(o)[:3])
                    if spec.get("consumer_pause_s") and len(res["got"]) == 1: time.sleep(spec["consumer_pause_s"])   # a caller busy with the first output
                    if spec["consumer_jitter_ms"] and rngc.random() < .5: time.sleep(rngc.random() * spec["consumer_jitter_ms"] / 1000.0)
                    if abandon is not None and len(res["got"]) >= abandon: break
            if abandon is not None:
                phase["name"] = "close"
                if hasattr(gen, "close"): gen.close()
                res["closed"] = True
                if spec.get("reuse_after_abandon"):
                    # the SAME object is called again at once, while workers of the abandoned call may still be busy with an item
                    phase["name"] = "reuse-after-abandon"
                    try:
                        g2 = mp.filter([(1000 + i, "") for i in range(spec["reuse_after_abandon"])]); mp_obj["gen"] = g2
                        res["got2"] = [list(o) for o in g2]
                    except Exception as e:
                        res["raised2"] = {"type": type(e).__name__, "msg": str(e)[:300]}
                # a fresh call on a new Multiprocessor must still work afterwards
                phase["name"] = "fresh-call"
                f2 = comp.C08Filter("gen", {0: 1, 1: 2}, [], spec["side"] + ".fresh", 0, 0)
                got2 = sorted(tuple(o[:2]) for o in cmp.Multiprocessor(f2, 2, 0).filter([(0, ""), (1, "")]))
                res["fresh"] = [list(g) for g in got2]
        except Exception as e:
            res["raised"] = {"type": type(e).__name__, "msg": str(e)[:300]}
        except BaseException as e:
            # CobaMultiprocessor reports the RuntimeError family through coba_exit (CobaExit derives from BaseException)
            if type(e).__name__ != "CobaExit": raise
            res["raised"] = {"type": "CobaExit", "msg": str(e)[:300]}
        if spec.get("reuse") and spec["abandon"] is None:
            # the same Multiprocessor object is used for a second, healthy stream (state of the first call must not matter)
            phase["name"] = "reuse"
            n2 = spec["reuse"]
            try:
                res["got2"] = [list(o) for o in mp.filter([(1000 + i, "") for i in range(n2)])]
            except Exception as e:
                res["raised2"] = {"type": type(e).__name__, "msg": str(e)[:300]}
        phase["name"] = "done"
        res["status"] = "returned"
    except BaseException as e:
        res["status"] = "harness-error"; res["error"] = traceback.format_exc()[-2000:]
    res["events"] = [list(e) for e in res["events"]] + [list(e) for e in comp.LINEAGE_LOG]
    finish(0)

if __name__ == "__main__":
    main()
