"""python -m vf.c19_cm <workdir> <seed> <out.json>: part E of C19 -- the ConcurrentCacher that CobaMultiprocessor builds for its
worker processes (shared array + lock) in front of a DiskCacher; several workers ask for the same few keys at once."""
import sys, os, json, random

def main():
    wd, seed, outp = sys.argv[1], int(sys.argv[2]), sys.argv[3]
    from coba.context import CobaContext, DiskCacher, NullLogger
    from coba.multiprocessing import CobaMultiprocessor
    from vf.components import CacheUser
    rng = random.Random(seed)
    os.environ["PYTHONHASHSEED"] = "random"              # spawn-ed workers: a different str-hash salt in every interpreter
    CobaContext.cacher = DiskCacher(os.path.join(wd, "cache"))
    CobaContext.logger = NullLogger()
    log = os.path.join(wd, "events.log")
    nkeys, nproc, nitems = rng.choice([1, 1, 2]), rng.choice([2, 3, 4]), rng.choice([4, 6, 8])
    out = {"nkeys": nkeys, "nproc": nproc, "nitems": nitems}
    try:
        out["outputs"] = [list(o) for o in CobaMultiprocessor(CacheUser(log, nkeys), nproc, 0).filter(range(nitems))]
    except BaseException as e:
        out["raised"] = f"{type(e).__name__}: {e}"
    out["getter_calls"] = [l.split()[1] for l in open(log)] if os.path.exists(log) else []
    with open(outp, "w") as f: json.dump(out, f)
    try:
        import multiprocessing
        for w in multiprocessing.active_children(): w.kill()
    except Exception: pass
    os._exit(0)

if __name__ == "__main__":
    main()
