"""pytest plugin of the C05 check: runs coba's own tests with the CobaRandom postconditions switched on and writes the
evaluation counters and every broken contract (also those a test swallowed) to $VF_C05_PYTEST_OUT."""
import os, json

def pytest_configure(config):
    from vf import lcg_c05
    lcg_c05.install()
    _wrap_errors()

_BROKEN = []
def _wrap_errors():
    # remember the failure mode next to the tag at the moment the contract breaks
    from vf import lcg_c05 as L
    orig = L.ContractBroken.__init__
    def init(self, *a):
        orig(self, *a)
        if len(_BROKEN) < 100: _BROKEN.append((self.tag, L.DETAIL[0], str(self)[:500]))
    L.ContractBroken.__init__ = init

def pytest_sessionfinish(session, exitstatus):
    out = os.environ.get("VF_C05_PYTEST_OUT")
    if not out: return
    from vf import lcg_c05 as L
    with open(out, "w") as f:
        json.dump({"counters": dict(L.CNT), "broken": _BROKEN, "exit": int(exitstatus)}, f)
