"""pytest plugin: runs coba's own table/result tests with the C17 contracts (row multiset preserved by index(), columns of equal
length after insert()) switched on -- an extra workload for the thorough tier.  Counters go to $VF_C17_COUNTERS."""
import os, json

def pytest_configure(config):
    from vf.props import c17
    c17._install_contracts()

def pytest_sessionfinish(session, exitstatus):
    from vf.props import c17
    p = os.environ.get("VF_C17_COUNTERS")
    if p:
        with open(p, "w") as f: json.dump({"counters": dict(c17._CNT), "exitstatus": int(exitstatus)}, f)
