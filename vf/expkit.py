"""Shared experiment kit for C01/C02/C03: JSON-able experiment specs, builders producing FRESH coba objects from a spec,
canonical Results, and runners (in-process, or one subprocess per multi-process configuration)."""
import os, sys, json, math, time, subprocess, tempfile, hashlib

# ------------------------------------------------------------------------------------------------ spec generation
SYNTH = ["linear", "neighbors", "kernel", "mlp"]

def gen_env_group(rng, gi):
    kind = rng.choice(SYNTH + ["linear", "supervised", "lambda", "lambda-sparse"])
    # (sizes on both sides of 25: Cache fills itself 25 interactions at a time)
    g = {"kind": kind, "n": rng.choice([4, 6, 9, 12, 12, 30, 55]), "seed": rng.randrange(1, 50), "tag": f"g{gi}", "filters": []}
    if kind in SYNTH:
        g.update(na=rng.choice([2, 3, 4]), ncf=rng.choice([1, 2, 3]), naf=rng.choice([0, 2]) if kind != "neighbors" else 0)
    if kind == "supervised":
        n = g["n"]; g["X"] = [[rng.randint(0, 5), round(rng.random(), 3)] for _ in range(n)]; g["Y"] = [rng.choice(["a", "b", "c"]) for _ in range(n)]
    fs = g["filters"]
    r = rng.random()
    if r < .25: fs.append(["chunk"])
    elif r < .35: fs.append(["cache"])
    r = rng.random()
    if r < .3:   fs.append(["shuffle_n", rng.choice([2, 3])])
    elif r < .5: fs.append(["shuffle", rng.randrange(1, 9)])
    if rng.random() < .3: fs.append(["take", rng.choice([3, 5, 8])])
    if rng.random() < .15: fs.append(["scale"])
    if rng.random() < .15: fs.append(["noise", rng.randrange(1, 9)])
    if rng.random() < .1: fs.append(["sleepy", rng.choice([5, 20]), rng.randrange(100)]); g["n"] = min(g["n"], 12)
    r = rng.random()
    if r < .08:   fs.append(["riffle", rng.choice([2, 3]), rng.randrange(1, 9)])
    elif r < .16: fs.append(["reservoir", rng.choice([3, 5]), rng.randrange(1, 9)])
    elif r < .22: fs.append(["sort"])
    elif r < .28: fs.append(["slice", rng.choice([0, 1]), rng.choice([None, 6]), rng.choice([1, 2])])
    elif r < .33: fs.append(["binary"])
    elif r < .38: fs.append(["where", rng.choice([1, 3])])
    if kind == "lambda-sparse":
        fs[:] = [f for f in fs if f[0] != "scale"]               # (coba refuses a shift on sparse contexts: not a valid pipeline)
        if rng.random() < .7: fs.insert(0, ["dense", rng.choice([6, 8]), "lookup"])   # a stateful name->column table
    if rng.random() < .2: fs.append(["logged", rng.randrange(1, 9)])
    if rng.random() < .12: fs.append(["batch", rng.choice([2, 3])])
    elif rng.random() < .1: fs.append(["materialize"])           # interactions (and their reward objects) exist before the work is shipped
    return g

# stateful-mem: a learner with __len__ (falsy while it has learned nothing); stateful-armkeys: writes non-str keys to learning_info
LRN_KINDS = ["stateful-ap", "stateful-pmf", "stateful-kw", "stateful-a", "stateful-info", "random", "epsilon", "ucb", "corral", "fixed",
             "stateful-mem", "stateful-armkeys"]
def gen_learner(rng, li):
    return {"kind": rng.choice(LRN_KINDS + ["stateful-ap", "stateful-kw"]), "tag": f"L{li}", "seed": rng.randrange(1, 20),
            "uni": rng.random() < .3}                      # non-ASCII text among the learner's params

def gen_evaluator(rng, vi):
    k = rng.choice(["cb", "cb", "cb-seed", "cb-record", "rec", "rec", "func", "cb-ips", "rejection"])
    return {"kind": k, "tag": f"V{vi}", "seed": rng.randrange(1, 20), "nrows": rng.choice([2, 4, 6])}

def policy_sharing_spec(rng):
    """a learner listed in exactly ONE triple (so it is trained in place by an in-process run) that is also the logging policy of the
       environment of a LATER triple which is evaluated off-policy: the logged data must be those of the pristine policy"""
    g0 = gen_env_group(rng, 0); g1 = gen_env_group(rng, 1)
    for g in (g0, g1):
        g["filters"] = [f for f in g["filters"] if f[0] in ("chunk", "cache", "shuffle", "take", "sort", "binary")]
        if g["kind"] == "lambda-sparse": g["kind"] = "lambda"
    g1["filters"].append(["logged_lrn", 0, rng.randrange(1, 9)])
    lrns = [gen_learner(rng, 0), gen_learner(rng, 1)]
    lrns[0]["kind"] = rng.choice(["stateful-ap", "stateful-pmf", "epsilon", "ucb"])
    vals = [{"kind": "cb", "tag": "V0", "seed": 1, "nrows": 2}, {"kind": rng.choice(["cb-ips", "rejection"]), "tag": "V1", "seed": rng.randrange(1, 20), "nrows": 2}]
    return {"groups": [g0, g1], "lrns": lrns, "vals": vals, "seed": rng.choice([1, 7, 42, 0]), "triples": [[0.0, 0, 0], [0.5, 1, 1]], "policy_sharing": True}

def gen_spec(rng, max_groups=3, max_lrns=3, max_vals=2):
    groups = [gen_env_group(rng, i) for i in range(rng.randint(1, max_groups))]
    lrns = [gen_learner(rng, i) for i in range(rng.randint(1, max_lrns))]
    vals = [gen_evaluator(rng, i) for i in range(rng.randint(1, max_vals))]
    for v in [v for v in vals if v["kind"] == "func"][1:]: v["kind"] = "rec"     # the bare function is one object: list it once
    # a learner of the experiment is also the logging policy of an environment (kinds that answer with a probability)
    for g in groups:
        ok = [i for i, l in enumerate(lrns) if l["kind"] in ("stateful-ap", "stateful-pmf", "stateful-info", "epsilon", "ucb", "random", "fixed")]
        if ok and rng.random() < .12 and not any(f[0] in ("logged", "batch", "materialize") for f in g["filters"]):
            g["filters"].append(["logged_lrn", rng.choice(ok), rng.randrange(1, 9)])
    if any(f[0] in ("logged", "logged_lrn") for g in groups for f in g["filters"]) and rng.random() < .8:
        vals[-1]["kind"] = rng.choice(["cb-ips", "rejection"])                     # logged data is actually used by an off-policy evaluator
    spec = {"groups": groups, "lrns": lrns, "vals": vals, "seed": rng.choice([1, 7, 42, 0]), "triples": "cross"}
    # the filters of the first group are applied to the union of the first two data sets by ONE fluent call each
    # ((data1+data2).chunk().shuffle(n=2)...): pipelines of different data sets that went through the same Environments call
    if len(groups) >= 2 and rng.random() < .4:
        spec["combine"] = True
        if any(g["kind"] == "lambda-sparse" for g in groups[:2]):   # (coba refuses a shift on sparse contexts: not a valid pipeline)
            groups[0]["filters"] = [f for f in groups[0]["filters"] if f[0] != "scale"]
        if rng.random() < .35:
            # two sparse data sets with different feature names, densified by one call (a name->column table per environment)
            for g in groups[:2]:
                g["kind"] = "lambda-sparse"; g["filters"] = [f for f in g["filters"] if f[0] not in ("dense", "scale", "noise", "sort", "where")]
            groups[0]["filters"].insert(0, ["dense", 8, "lookup"])
    if rng.random() < .35:
        # explicit tuple list over (group-member index resolved at build time, learner, evaluator), objects shared in random patterns
        spec["triples"] = [[rng.random(), rng.randrange(len(lrns)), rng.randrange(len(vals)) if rng.random() < .8 else None]
                           for _ in range(rng.randint(1, 7))]
    return spec

# ------------------------------------------------------------------------------------------------ builders
def lam_context(i): return [i % 3, (i * 7) % 5]
def lam_actions(i, c): return [0, 1, 2]
def lam_reward(i, c, a): return float((a + c[0]) % 3 == 0)

def lam_sparse_context_a(i): return {f"a{i % 3}": 1, f"a{(i * 7) % 5 + 3}": i % 4 + 1}
def lam_sparse_context_b(i): return {f"b{(i * 3) % 4}": 2, f"b{i % 2 + 5}": 1, "shared": i % 3}

def build_base(g):
    from coba.environments import Environments
    k = g["kind"]
    if k == "lambda-sparse":
        # sparse contexts whose feature names depend on the group
        envs = Environments.from_lambda(g["n"], lam_sparse_context_a if int(g["tag"][1:]) % 2 == 0 else lam_sparse_context_b, lam_actions, lam_reward_any)
        return envs.params({"tag": g["tag"]})
    return None

def lam_reward_any(i, c, a): return float((a + i) % 3 == 0)

def build_envs(g, base=None, lrns=None):
    from coba.environments import Environments
    from vf import components as comp
    k = g["kind"]
    if base is not None: envs = base
    elif k == "lambda-sparse": envs = build_base(g)
    else: envs = _build_plain_base(g)
    return list(_apply_filters(envs, g["filters"], lrns))

def _build_plain_base(g):
    from coba.environments import Environments
    k = g["kind"]
    if k == "linear":      envs = Environments.from_linear_synthetic(g["n"], n_actions=g["na"], n_context_features=g["ncf"], n_action_features=g["naf"], seed=g["seed"])
    elif k == "neighbors": envs = Environments.from_neighbors_synthetic(g["n"], n_actions=g["na"], n_context_features=g["ncf"], seed=g["seed"])
    elif k == "kernel":    envs = Environments.from_kernel_synthetic(g["n"], n_actions=g["na"], n_context_features=g["ncf"], n_action_features=g["naf"], seed=g["seed"])
    elif k == "mlp":       envs = Environments.from_mlp_synthetic(g["n"], n_actions=g["na"], n_context_features=g["ncf"], n_action_features=g["naf"], seed=g["seed"])
    elif k == "supervised":envs = Environments.from_supervised([list(x) for x in g["X"]], list(g["Y"]))
    elif k == "lambda":    envs = Environments.from_lambda(g["n"], lam_context, lam_actions, lam_reward)
    else: raise ValueError(k)
    return envs.params({"tag": g["tag"]})

def _apply_filters(envs, filters, lrns=None):
    from vf import components as comp
    for f in filters:
        if   f[0] == "chunk":     envs = envs.chunk()
        elif f[0] == "cache":     envs = envs.cache()
        elif f[0] == "shuffle_n": envs = envs.shuffle(n=f[1])
        elif f[0] == "shuffle":   envs = envs.shuffle(f[1])
        elif f[0] == "take":      envs = envs.take(f[1])
        elif f[0] == "take_strict": envs = envs.take(f[1], strict=True)      # more than there are: an environment without interactions
        elif f[0] == "scale":     envs = envs.scale("min", "minmax")
        elif f[0] == "noise":     envs = envs.noise(context=("g", 0, .1), seed=f[1])
        elif f[0] == "sleepy":    envs = envs.filter(comp.SleepyFilter(f[1], f[2]))
        elif f[0] == "batch":     envs = envs.batch(f[1])
        elif f[0] == "riffle":    envs = envs.riffle(f[1], f[2])
        elif f[0] == "reservoir": envs = envs.reservoir(f[1], f[2])
        elif f[0] == "sort":      envs = envs.sort()
        elif f[0] == "slice":     envs = envs.slice(f[1], f[2], f[3])
        elif f[0] == "binary":    envs = envs.binary()
        elif f[0] == "where":     envs = envs.where(n_interactions=(f[1], None))
        elif f[0] == "dense":     envs = envs.dense(f[1], f[2])
        elif f[0] == "materialize": envs = envs.materialize()
        elif f[0] == "logged":
            from coba.learners import RandomLearner
            envs = envs.logged(RandomLearner(seed=f[1]), seed=float(f[1]))
        elif f[0] == "logged_lrn":
            # the logging policy is one of the experiment's own learner OBJECTS (f[1] = its index): an object shared between an
            # environment of one triple and the learner slot of another
            envs = envs.logged(lrns[f[1] % len(lrns)], seed=float(f[2]))
    return envs

def build_learner(l, fail=None):
    from vf import components as comp
    from coba.learners import RandomLearner, BanditEpsilonLearner, BanditUCBLearner, CorralLearner, FixedLearner
    k = l["kind"]
    if k == "stateful-mem": return comp.MemoryLearner(l["tag"], "ap", fail, uni=l.get("uni"))
    if k == "stateful-rnginit": return comp.RngInitLearner(l["tag"], l["seed"], fail, uni=l.get("uni"))
    if k.startswith("stateful"): return comp.StatefulLearner(l["tag"], k.split("-")[1], fail, uni=l.get("uni"))
    if k == "random":  return RandomLearner()
    if k == "epsilon": return BanditEpsilonLearner(.2, seed=l["seed"])
    if k == "ucb":     return BanditUCBLearner(seed=l["seed"])
    if k == "corral":  return CorralLearner([BanditEpsilonLearner(.1, seed=l["seed"]), RandomLearner(seed=l["seed"])], eta=.075, seed=l["seed"])
    if k == "fixed":   return RandomLearner(seed=l["seed"])
    raise ValueError(k)

def build_evaluator(v, side, fail=None):
    from vf import components as comp
    k = v["kind"]
    if k == "cb":        return comp.LoggingCB(side, v["tag"])
    if k == "cb-seed":   return comp.LoggingCB(side, v["tag"], seed=v["seed"])
    if k == "cb-record": return comp.LoggingCB(side, v["tag"], record=["reward", "action", "probability", "context"])
    if k == "cb-ips":    return comp.LoggingCB(side, v["tag"], learn="ips", eval="ips")        # needs logged environments (others fail: logged, no rows)
    if k == "rejection": return comp.LoggingRejection(side, v["tag"], seed=v["seed"])
    if k == "rec":       return comp.RecEvaluator(v["tag"], side, v["nrows"], **(fail or {}))
    if k == "rec-sum":   return comp.RecSummaryEvaluator(v["tag"], side, v["nrows"], **(fail or {}))
    if k == "func":      return comp.rec_function_evaluator
    raise ValueError(k)

def build_experiment(spec, side=None, faults=None, only_triple=None):
    """returns (Experiment, triple_keys) -- triple_keys[i] = (env_key, lrn_tag, val_tag) identifying the i-th listed triple.
       faults: {"lrn": {idx: (where,k)}, "val": {idx: {...}}, "env": {env_index: (where,k)}}"""
    from coba.experiments import Experiment
    from vf import components as comp
    faults = faults or {}
    envs = []
    groups = list(spec["groups"])
    lrns = [build_learner(l, tuple(faults.get("lrn", {}).get(str(i))) if faults.get("lrn", {}).get(str(i)) else None) for i, l in enumerate(spec["lrns"])]
    if spec.get("combine") and len(groups) >= 2:
        g0, g1 = groups[0], groups[1]
        b0 = build_base(g0) or _build_plain_base(g0); b1 = build_base(g1) or _build_plain_base(g1)
        envs.extend(build_envs(g0, base=b0 + b1, lrns=lrns))
        groups = groups[2:]
    for g in groups: envs.extend(build_envs(g, lrns=lrns))
    for i, wk in (faults.get("env") or {}).items():
        i = int(i)
        if i < len(envs): envs[i] = comp.FailingEnv(envs[i], *wk)          # (where, k[, message style])
    vals = [build_evaluator(v, side, faults.get("val", {}).get(str(i))) for i, v in enumerate(spec["vals"])]
    if spec["triples"] == "cross":
        idx = [(e, l, v) for e in range(len(envs)) for l in range(len(lrns)) for v in range(len(vals))]
    else:
        idx = [(int(t[0] * len(envs)) % len(envs), t[1], t[2]) for t in spec["triples"]]
        idx = [t for i, t in enumerate(idx) if t[2] is None or t not in idx[:i]]      # the same triple is not listed twice
    if only_triple is not None: idx = [idx[only_triple]]
    triples = [((envs[e], lrns[l], vals[v]) if v is not None else (envs[e], lrns[l])) for e, l, v in idx]
    return Experiment(triples), idx

# ------------------------------------------------------------------------------------------------ canonical results
def _cv(v):
    from coba.results.core import Missing
    if v is Missing or v is None: return None
    if isinstance(v, float):
        if v != v: return "NaN"
        if v in (float("inf"), float("-inf")): return repr(v)
        return v
    if isinstance(v, (list, tuple)): return [_cv(x) for x in v]
    if isinstance(v, dict): return {str(k): _cv(x) for k, x in sorted(v.items(), key=lambda kv: str(kv[0]))}
    if isinstance(v, (int, str, bool)): return v
    return repr(v)

def canon_table(t):
    cols = [c for c in t.columns if "time" not in c]
    rows = [{c: _cv(v) for c, v in zip(t.columns, r) if c in cols and _cv(v) is not None} for r in t]
    return sorted(rows, key=lambda r: json.dumps(r, sort_keys=True, default=str))

def canon_result(res):
    exp = {k: v for k, v in dict(res.experiment).items()}
    def ids(t, c): return [r[t.columns.index(c)] for r in t] if c in t.columns else []
    it = res.interactions
    trip = []
    if all(c in it.columns for c in ("environment_id", "learner_id", "evaluator_id")):
        pos = [it.columns.index(c) for c in ("environment_id", "learner_id", "evaluator_id")]
        for r in it:
            k = [r[p] for p in pos]
            if not trip or trip[-1] != k: trip.append(k)
    # the tables are documented to be rebuilt sorted by ids, whatever the arrival order of the records
    order = {"environments": ids(res.environments, "environment_id"), "learners": ids(res.learners, "learner_id"),
             "evaluators": ids(res.evaluators, "evaluator_id"), "interactions": trip}
    return {"environments": canon_table(res.environments), "learners": canon_table(res.learners),
            "evaluators": canon_table(res.evaluators), "interactions": canon_table(res.interactions), "experiment": _cv(exp), "order": order}

def diff_canon(a, b):
    for t in ("experiment", "environments", "learners", "evaluators", "interactions", "order"):
        if a[t] != b[t]:
            if isinstance(a[t], list):
                sa = [json.dumps(r, sort_keys=True) for r in a[t]]; sb = [json.dumps(r, sort_keys=True) for r in b[t]]
                only_a = [r for r in sa if r not in set(sb)][:2]; only_b = [r for r in sb if r not in set(sa)][:2]
                return t, f"{t}: {len(sa)} vs {len(sb)} rows; only-in-first {only_a} only-in-second {only_b}"
            return t, f"{t}: {a[t]} vs {b[t]}"
    return None

# ------------------------------------------------------------------------------------------------ runners
def run_inproc(spec, cfg, result_file=None, side=None, faults=None, only_triple=None, log_sink=None, arrival=None):
    """builds fresh objects and runs in this process. cfg = (processes, maxchunksperchild, maxtasksperchunk)"""
    from coba.context import CobaContext, IndentLogger, NullLogger
    from coba.pipes import ListSink
    import coba.experiments.core as xc
    exp, idx = build_experiment(spec, side, faults, only_triple)
    old_logger = CobaContext.logger
    sink = ListSink()
    CobaContext.logger = IndentLogger(sink)
    old_enc = xc.TransactionEncode
    if arrival is not None:
        class RecEncode(old_enc):
            def filter(self, transactions):
                def tap():
                    for t in transactions:
                        arrival.append((t[0], t[1] if t[0] != "T0" else None)); yield t
                return super().filter(tap())
        xc.TransactionEncode = RecEncode
    try:
        res = exp.run(result_file, quiet=True, processes=cfg[0], maxchunksperchild=cfg[1], maxtasksperchunk=cfg[2], seed=spec["seed"])
    finally:
        CobaContext.logger = old_logger
        xc.TransactionEncode = old_enc
    if log_sink is not None: log_sink.extend(str(x) for x in sink.items)
    return res, idx

def case_main():
    """python -m vf.expkit <in.json> <out.json> : runs one configuration in its own process (multi-process configurations)"""
    a = json.load(open(sys.argv[1]))
    out = {"status": "started"}
    # should the watchdog of the parent fire, the stacks of all threads of this process are in stderr.txt by then (what the run was waiting for)
    import faulthandler
    faulthandler.dump_traceback_later(float(a.get("dump_after_s") or 200), exit=False, file=sys.stderr)
    try:
        arrival, logs = [], []
        for pre in a.get("pre") or []:          # earlier runs in the same interpreter (state kept between runs must not matter)
            run_inproc(pre["spec"], pre["cfg"])
        res, idx = run_inproc(a["spec"], a["cfg"], a.get("result_file"), a.get("side"), a.get("faults"), a.get("only_triple"), logs, arrival)
        out = {"status": "ok", "canon": canon_result(res), "arrival": arrival, "logs": logs[-200:], "idx": idx}
    except BaseException as e:
        import traceback
        out = {"status": "raised", "error": f"{type(e).__name__}: {e}", "tb": traceback.format_exc()[-1500:]}
    with open(sys.argv[2] + ".tmp", "w") as f: json.dump(out, f, default=repr)
    os.replace(sys.argv[2] + ".tmp", sys.argv[2])
    try:
        import multiprocessing
        for w in multiprocessing.active_children():
            try: w.kill()
            except Exception: pass
    except Exception: pass
    sys.stdout.flush(); os._exit(0)

WATCHDOG_LOG = []      # every firing of the watchdog in this process: configuration, deadline, the stacks the case process dumped

def run_subprocess(spec, cfg, workdir, result_file=None, side=None, faults=None, only_triple=None, timeout=240, pre=None):
    ip, op = os.path.join(workdir, "in.json"), os.path.join(workdir, "out.json")
    if os.path.exists(op): os.remove(op)
    with open(ip, "w") as f: json.dump({"spec": spec, "cfg": list(cfg), "result_file": result_file, "side": side, "faults": faults, "only_triple": only_triple, "pre": pre, "dump_after_s": max(5, timeout * .8)}, f)
    errp = os.path.join(workdir, "stderr.txt")
    # the deadline is a watchdog, not a verdict: stretch it when the machine is oversubscribed
    try: timeout = timeout * max(1.0, 2.0 * os.getloadavg()[0] / (os.cpu_count() or 1))
    except OSError: pass
    with open(errp, "w") as ef:
        stackdir = os.path.join(workdir, "stacks"); os.makedirs(stackdir, exist_ok=True)
        for fn in os.listdir(stackdir): os.remove(os.path.join(stackdir, fn))
        proc = subprocess.Popen([sys.executable, "-W", "ignore", "-m", "vf.expkit", ip, op], stdout=ef, stderr=ef, stdin=subprocess.DEVNULL, start_new_session=True,
                                env={**os.environ, "VERIF_STACKDIR": stackdir})
        try: proc.wait(timeout=timeout)
        except subprocess.TimeoutExpired:
            group = _dump_group(proc.pid, stackdir)
            try: os.killpg(proc.pid, 9)
            except Exception: pass
            proc.wait()
            try: ef.flush(); stacks = open(errp).read()[-6000:]
            except Exception: stacks = ""
            WATCHDOG_LOG.append({"cfg": list(cfg), "timeout_s": round(timeout), "stacks": stacks, "group": group})
            keep = os.environ.get("VERIF_KEEP_WATCHDOG")
            if keep:
                try:
                    with open(os.path.join(keep, f"watchdog-{os.getpid()}-{len(WATCHDOG_LOG)}.json"), "w") as kf:
                        json.dump({"spec": spec, "cfg": list(cfg), "faults": faults, "only_triple": only_triple, "pre": pre, "stacks": stacks, "group": group}, kf, default=repr)
                except Exception: pass
            return {"status": "timeout", "stacks": stacks, "group": group}
        finally:
            try: os.killpg(proc.pid, 9)
            except Exception: pass
    if not os.path.exists(op): return {"status": "no-output", "stderr": open(errp).read()[-1500:]}
    return json.load(open(op))

def _dump_group(pgid, stackdir):
    """the processes of the case's process group as the watchdog found them: state, command line and -- for those that imported
       vf.components -- the stacks of all their threads (SIGUSR1 -> faulthandler)"""
    import signal
    out = []
    try:
        for pid in [int(x) for x in os.listdir("/proc") if x.isdigit()]:
            try:
                st = open(f"/proc/{pid}/stat").read()
                fields = st[st.rindex(")") + 2:].split()
                if int(fields[2]) != pgid: continue
                cmd = open(f"/proc/{pid}/cmdline").read().replace("\0", " ")[:160]
                out.append({"pid": pid, "ppid": int(fields[1]), "state": fields[0], "cmd": cmd})
            except Exception: continue
        for e in out:
            try: os.kill(e["pid"], signal.SIGUSR1)
            except Exception: pass
        time.sleep(1.0)
        for e in out:
            try: e["stack"] = open(os.path.join(stackdir, f"stack.{e['pid']}")).read()[-5000:]
            except Exception: e["stack"] = None
    except Exception as ex:
        out.append({"error": repr(ex)})
    return out

def read_side(side):
    out = []
    if side and os.path.exists(side):
        for line in open(side):
            a = line.split()
            if len(a) == 5 and a[0] == "EVAL": out.append((a[1], a[2], a[3], int(a[4])))
    return out

if __name__ == "__main__":
    case_main()
