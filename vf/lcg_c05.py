"""Helpers of the C05 check (CobaRandom): arithmetic on the generator's LCG (inversion, jump-ahead), reading the
state out of the real generator frame, and the icontract postconditions that are bound onto the real CobaRandom
methods.  `install()` may be called by any workload that touches coba; the evaluation counters are in `CNT`."""
import math, builtins
from collections import Counter
from fractions import Fraction

# ------------------------------------------------------------------------------------------ the LCG of the statement
A, C, M = 116646453, 9, 2**30
M1   = M - 1
AINV = pow(A, -1, M)

def step(s):  return (A * s + C) & M1
def inv(t):   return (AINV * (t - C)) & M1

def _affine_pow(a, c, n):
    """(a,c)^n as an affine map x -> a'x + c' (mod M)"""
    ra, rc = 1, 0
    while n:
        if n & 1: ra, rc = (a * ra) & M1, (a * rc + c) & M1
        a, c = (a * a) & M1, (a * c + c) & M1
        n >>= 1
    return ra, rc

def jump(s, n):
    """state after n draws from state s (n may be negative)"""
    if n < 0:
        ia, ic = AINV, (-AINV * C) & M1
        a, c = _affine_pow(ia, ic, -n)
    else:
        a, c = _affine_pow(A, C, n)
    return (a * s + c) & M1

def seed_for(t, d):
    """the seed in [0,2^30) whose d-th draw (1-based) has LCG state t"""
    return jump(t, -d)

def lcg_stream(s):
    """the model of the uniform stream: same arithmetic as the statement, used for reach accounting only"""
    while True:
        s = (A * s + C) & M1
        yield s / M

def state_of(rng):
    """LCG state of a real CobaRandom, read from the frame of its uniform generator (None if it cannot be read)"""
    try:
        fr = rng._randu.gi_frame
        return None if fr is None else fr.f_locals.get("s")
    except Exception:
        return None

def draws_between(sb, sa, limit=1 << 10):
    """number of model steps from state sb to state sa (None if not within limit): how many uniforms a call drew"""
    if sb is None or sa is None: return None
    n, s = 0, sb
    while s != sa:
        if n >= limit: return None
        s = step(s); n += 1
    return n

# ------------------------------------------------------------------------------------------ contracts
class ContractBroken(AssertionError):
    tag = "?"
    log = []                       # (tag, message) of every broken contract (also those a caller swallowed)
    def __init__(self, *a):
        super().__init__(*a)
        if len(ContractBroken.log) < 200: ContractBroken.log.append((self.tag, str(self)[:600]))

_ERR = {}
def _err(tag):
    if tag not in _ERR:
        _ERR[tag] = type("ContractBroken_" + tag.replace(".", "_"), (ContractBroken,), {"tag": tag})
    return _ERR[tag]

CNT = Counter()                    # evaluations of each postcondition whose precondition held

BOX = float(2**20)                 # "bounds of ordinary magnitude": |min|,|max| <= 2^20 and max-min >= 2^-20
EPS = 2.0**-20

def _real(x): return isinstance(x, (int, float)) and not isinstance(x, bool) and x == x and abs(x) != math.inf
def _int(x):  return isinstance(x, int) and not isinstance(x, bool)
def _weight(x):
    """a weight is an ordinary real number: int, float, or an exact rational (fractions.Fraction)"""
    return _real(x) or isinstance(x, Fraction)

def bounds_in_domain(lo, hi):
    return _real(lo) and _real(hi) and abs(lo) <= BOX and abs(hi) <= BOX and hi - lo >= EPS

# every condition returns True (vacuously) when the documented precondition does not hold: the statement is silent there.
# A failing condition leaves the failure mode in DETAIL[0] (used for the mechanism-level signature).
DETAIL = [None]
def _fail(mode):
    DETAIL[0] = mode
    return False

def _range_mode(lo, hi, vals, closed):
    for v in vals:
        if not _real(v): return "not-a-number"
        if v < lo: return "result<min"
        if closed and v > hi: return "result>max"
        if not closed and v == hi: return "result==max"
        if not closed and v > hi: return "result>max"
    return None

def random_in_range(min, max, result):
    if not bounds_in_domain(min, max): return True
    CNT["contract.random.in_range"] += 1
    m = _range_mode(min, max, [result], False)
    return True if m is None else _fail(m)

def randoms_in_range(n, min, max, result):
    if not (_int(n) and n >= 0 and bounds_in_domain(min, max)): return True
    CNT["contract.randoms.in_range"] += 1
    if not isinstance(result, (list, tuple)) or len(result) != n: return _fail("wrong-length")
    if n == 0: return True
    try:
        if min <= builtins.min(result) and builtins.max(result) < max and (n > 4096 or all(map(_real, result))): return True
    except TypeError: return _fail("not-a-number")
    return _fail(_range_mode(min, max, result, False) or "not-a-number")

def randint_in_range(a, b, result):
    if not (_int(a) and _int(b) and a <= b): return True
    CNT["contract.randint.in_range"] += 1
    if not _int(result): return _fail("not-an-int")
    return True if a <= result <= b else _fail("result<a" if result < a else "result>b")

def randints_in_range(n, a, b, result):
    if not (_int(n) and n >= 0 and _int(a) and _int(b) and a <= b): return True
    CNT["contract.randints.in_range"] += 1
    if not isinstance(result, (list, tuple)) or len(result) != n: return _fail("wrong-length")
    for r in result:
        if not _int(r): return _fail("not-an-int")
        if not a <= r <= b: return _fail("result<a" if r < a else "result>b")
    return True

def _snapshot_items(items):
    # one-shot iterators cannot be snapshotted without consuming them; the C05 workload checks those itself
    if isinstance(items, (list, tuple, range, str)): return list(items)
    return None

def same_multiset(xs, ys):
    if len(xs) != len(ys): return False
    try: return Counter(xs) == Counter(ys)
    except TypeError:                                  # unhashable members: compare by identity
        return sorted(map(id, xs)) == sorted(map(id, ys))

def shuffle_is_permutation(result, OLD):
    if OLD.items is None: return True
    CNT["contract.shuffle.permutation"] += 1
    try: ok = same_multiset(list(result), OLD.items)
    except TypeError: ok = False
    return True if ok else _fail("not-a-permutation")

def _weights_ok(seq, weights):
    try:
        if len(weights) != len(seq): return False
        if not (all(_weight(w) and w >= 0 for w in weights) and sum(weights) > 0): return False
        if any(isinstance(w, Fraction) for w in weights): CNT["contract.weights.fraction"] += 1
        return True
    except TypeError: return False

def _is(x, y):
    if x is y: return True
    try: return bool(x == y)
    except Exception: return False

def _zero_mode(seq, weights, item):
    """where the returned zero-weight member sits: before the first / after the last / between positive weights"""
    i = next(i for i, x in enumerate(seq) if _is(item, x))
    w = list(weights)
    if not any(x > 0 for x in w[:i]): return "zero-weight-member-leading"
    if not any(x > 0 for x in w[i + 1:]): return "zero-weight-member-trailing"
    return "zero-weight-member-embedded"

def choice_member_nonzero_weight(seq, weights, result):
    try: n = len(seq)
    except TypeError: return True
    if n == 0: return True
    if weights is None:
        CNT["contract.choice.member"] += 1
        return True if any(_is(result, x) for x in seq) else _fail("non-member")
    if not _weights_ok(seq, weights): return True
    CNT["contract.choice.member_nonzero_weight"] += 1
    if any(w > 0 and _is(result, x) for x, w in zip(seq, weights)): return True
    return _fail(_zero_mode(seq, weights, result) if any(_is(result, x) for x in seq) else "non-member")

def choicew_member_and_weight(seq, weights, result):
    try: n = len(seq)
    except TypeError: return True
    if n == 0: return True
    if weights is not None and not _weights_ok(seq, weights): return True
    CNT["contract.choicew.member_and_weight"] += 1
    if not (isinstance(result, tuple) and len(result) == 2): return _fail("not-a-pair")
    item, w = result
    if not any(_is(item, x) for x in seq): return _fail("non-member")
    if weights is None:
        return True if w == 1 / n else _fail("wrong-weight")
    # some position holds the returned member, has non-zero weight, and its weight is the one returned
    if any(wi > 0 and wi == w and _is(item, x) for x, wi in zip(seq, weights)): return True
    if not any(wi > 0 and _is(item, x) for x, wi in zip(seq, weights)): return _fail(_zero_mode(seq, weights, item))
    return _fail("wrong-weight")

def _gauss_domain(mu, sigma): return _real(mu) and _real(sigma) and abs(mu) <= BOX and abs(sigma) <= BOX

def gauss_finite_float(mu, sigma, result):
    if not _gauss_domain(mu, sigma): return True
    CNT["contract.gauss.finite"] += 1
    if not isinstance(result, float): return _fail("not-a-float")
    return True if math.isfinite(result) else _fail("non-finite")

def gausses_finite_floats(n, mu, sigma, result):
    if not (_int(n) and n >= 0 and _gauss_domain(mu, sigma)): return True
    CNT["contract.gausses.finite"] += 1
    if not isinstance(result, (list, tuple)) or len(result) != n: return _fail("wrong-length")
    if n == 0: return True
    if set(map(type, result)) != {float}: return _fail("not-a-float")
    return True if math.isfinite(sum(result)) else _fail("non-finite")

CONTRACT_NAMES = ["contract.random.in_range", "contract.randoms.in_range", "contract.randint.in_range",
                  "contract.randints.in_range", "contract.shuffle.permutation", "contract.choice.member",
                  "contract.choice.member_nonzero_weight", "contract.choicew.member_and_weight",
                  "contract.gauss.finite", "contract.gausses.finite"]

def install():
    """bind the postconditions onto the real coba.random.CobaRandom (idempotent)"""
    import icontract
    from coba.random import CobaRandom as R
    if getattr(R, "_vf_c05_contracts", False): return
    def ens(cond, tag, f): return icontract.ensure(cond, error=_err(tag))(f)
    R.random   = ens(random_in_range,   "random.in_range",   R.random)
    R.randoms  = ens(randoms_in_range,  "randoms.in_range",  R.randoms)
    R.randint  = ens(randint_in_range,  "randint.in_range",  R.randint)
    R.randints = ens(randints_in_range, "randints.in_range", R.randints)
    R.shuffle  = icontract.snapshot(_snapshot_items, name="items")(
                     ens(shuffle_is_permutation, "shuffle.permutation", R.shuffle))
    R.choice   = ens(choice_member_nonzero_weight, "choice.member_nonzero_weight", R.choice)
    R.choicew  = ens(choicew_member_and_weight,    "choicew.member_and_weight",    R.choicew)
    R.gauss    = ens(gauss_finite_float,    "gauss.finite",   R.gauss)
    R.gausses  = ens(gausses_finite_floats, "gausses.finite", R.gausses)
    R._vf_c05_contracts = True
