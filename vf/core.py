"""Shared machinery: seeds, tiers, three-valued verdicts, sharded subprocess runner, evidence writer,
known-finding classifier, replay files.  See DESIGN.md section 1."""
import os, sys, json, time, random, hashlib, importlib, subprocess, tempfile, shutil, re, traceback
from collections import Counter
from concurrent.futures import ThreadPoolExecutor

HOME = os.environ.get("VERIF_HOME") or os.path.dirname(os.path.dirname(os.path.abspath(__file__)))
REPO = os.environ.get("VERIF_REPO_DIR", "/repo")
PY   = sys.executable
KNOWN_FILE = os.path.join(HOME, "known_findings.txt")

MAX_VIOL_PER_SHARD = 400     # witnesses kept per shard (counts are exact regardless)
MAX_SAMPLES        = 4

def hkey(key):
    return hashlib.blake2b(repr(key).encode("utf8", "backslashreplace"), digest_size=8).hexdigest()

def jsonable(o, depth=0):
    """best-effort conversion of a witness to something json.dump accepts"""
    if depth > 12: return repr(o)
    if o is None or isinstance(o, (bool, int, str)): return o
    if isinstance(o, float):
        return o if o == o and o not in (float("inf"), float("-inf")) else repr(o)
    if isinstance(o, (list, tuple, set, frozenset)):
        return [jsonable(x, depth+1) for x in o]
    if isinstance(o, dict):
        return {(k if isinstance(k, str) else repr(k)): jsonable(v, depth+1) for k, v in o.items()}
    if isinstance(o, bytes): return {"__bytes__": o.hex()}
    return repr(o)

class Ctx:
    """per-shard context handed to props.<id>.run_shard"""
    def __init__(self, prop, tier, seed, shard, nshards, plan):
        self.prop, self.tier, self.seed, self.shard, self.nshards, self.plan = prop, tier, seed, shard, nshards, plan
        self.rng = random.Random(f"{seed}/{prop}/{tier}/{shard}")
        total = plan.get("cases", 0)
        self.n = total // nshards + (1 if shard < total % nshards else 0)
        self.evaluations = 0
        self.distinct = set()
        self.counters = Counter()
        self.samples = []
        self.violations = []          # dicts: sig, what, witness
        self.viol_counts = Counter()  # sig -> count
        self.inconclusive = []
        self.extra = {}
        self.t0 = time.time()
        self.budget = plan.get("budget_s")   # soft time budget for the shard's own loop

    def time_left(self):
        return 1e9 if not self.budget else self.budget - (time.time() - self.t0)

    def case(self, key, nontrivial=True):
        self.evaluations += 1
        if nontrivial: self.distinct.add(hkey(key))

    def count(self, name, n=1):
        self.counters[name] += n

    def sample(self, obj):
        if len(self.samples) < MAX_SAMPLES: self.samples.append(jsonable(obj))

    def violation(self, sig, what, witness):
        self.viol_counts[sig] += 1
        if self.viol_counts[sig] <= 2 and len(self.violations) < MAX_VIOL_PER_SHARD:
            self.violations.append({"sig": sig, "what": str(what)[:2000], "witness": jsonable(witness)})

    def note_inconclusive(self, reason):
        self.inconclusive.append(reason)

    def summary(self):
        return {"evaluations": self.evaluations, "distinct": sorted(self.distinct), "counters": dict(self.counters),
                "samples": self.samples, "violations": self.violations, "viol_counts": dict(self.viol_counts),
                "inconclusive": self.inconclusive, "extra": self.extra, "wall_s": time.time() - self.t0}

# ----------------------------------------------------------------------------------------------------------------
def load_known():
    """known_findings.txt lines:
         open: property=<id> sig=<signature> :: <what fails>
         fixed: property=<id> <commit> sig=<signature> :: <what failed>
       Only 'open' entries are ever reported as KNOWN-FINDING; 'fixed' entries suppress nothing."""
    out = {"open": {}, "fixed": {}}
    if not os.path.exists(KNOWN_FILE): return out
    for line in open(KNOWN_FILE, encoding="utf8"):
        line = line.strip()
        if not line or line.startswith("#"): continue
        m = re.match(r"^(open|fixed): property=(C\d+) (?:(\S+) )?sig=(\S+) :: (.*)$", line)
        if not m: continue
        status, prop, commit, sig, what = m.groups()
        out[status].setdefault(prop, {})[sig] = what
    return out

def slug(s):
    return re.sub(r"[^A-Za-z0-9_.=-]+", "_", s)[:120]

def _run_one_shard(prop, tier, seed, idx, n, outdir, timeout, env_extra=None):
    out = os.path.join(outdir, f"shard{idx}.json")
    env = dict(os.environ)
    if env_extra: env.update(env_extra)
    cmd = [PY, "-m", "vf.shard", prop, tier, str(seed), str(idx), str(n), out]
    t0 = time.time()
    try:
        p = subprocess.run(cmd, timeout=timeout, capture_output=True, text=True, env=env, cwd=HOME)
        if os.path.exists(out):
            with open(out) as f: s = json.load(f)
            s["_rc"] = p.returncode
            if p.returncode != 0:
                s.setdefault("inconclusive", []).append(f"shard{idx}-exit-{p.returncode}: {p.stderr[-600:]}")
            return s
        return {"_failed": f"shard{idx} rc={p.returncode} no summary; stderr tail: {p.stderr[-1500:]}"}
    except subprocess.TimeoutExpired as e:
        if os.path.exists(out):
            try:
                with open(out) as f: s = json.load(f)
                s.setdefault("inconclusive", []).append(f"shard{idx}-watchdog-{timeout}s")
                return s
            except Exception: pass
        return {"_failed": f"shard{idx} watchdog {timeout}s fired (wall {time.time()-t0:.0f}s)"}

def run_property(prop, tier, seed, replay=None):
    mod = importlib.import_module(f"vf.props.{prop.lower()}")
    if replay:
        with open(replay) as f: rep = json.load(f)
        res = mod.replay(rep["witness"])
        if res:
            for sig, what in res: print(f"REPLAY violation sig={sig}: {what}")
            print(f"VIOLATION property={prop} replay={replay}")
            return 1
        print(f"REPLAY property={prop}: witness no longer violates")
        return 0

    t0 = time.time()
    plan = dict(mod.PLAN[tier])
    nshards = plan.get("shards", 16)
    par = plan.get("parallel", 16)
    timeout = plan.get("timeout", 900)
    outdir = tempfile.mkdtemp(prefix=f"vf-{prop}-")
    try:
        with ThreadPoolExecutor(max_workers=par) as ex:
            futs = [ex.submit(_run_one_shard, prop, tier, seed, i, nshards, outdir, timeout) for i in range(nshards)]
            shards = [f.result() for f in futs]
    finally:
        shutil.rmtree(outdir, ignore_errors=True)

    merged = {"evaluations": 0, "distinct": set(), "counters": Counter(), "samples": [], "violations": [],
              "viol_counts": Counter(), "inconclusive": [], "extra": {}, "shard_wall": []}
    for s in shards:
        if "_failed" in s:
            merged["inconclusive"].append(s["_failed"]); continue
        merged["evaluations"] += s["evaluations"]
        merged["distinct"].update(s["distinct"])
        merged["counters"].update(s["counters"])
        merged["samples"].extend(s["samples"])
        merged["violations"].extend(s["violations"])
        merged["viol_counts"].update(s["viol_counts"])
        merged["inconclusive"].extend(s["inconclusive"])
        merged["shard_wall"].append(round(s.get("wall_s", 0), 1))
        for k, v in s.get("extra", {}).items():
            merged["extra"].setdefault(k, []).append(v)

    if hasattr(mod, "finalize"):
        mod.finalize(merged, tier, seed)

    # a deciding monitor that observed nothing => inconclusive, never held
    for name in getattr(mod, "REQUIRED", []):
        if merged["counters"].get(name, 0) <= 0:
            merged["inconclusive"].append(f"monitor-never-reached:{name}")
    if merged["evaluations"] == 0:
        merged["inconclusive"].append("no-evaluations")

    known = load_known()
    open_k = known["open"].get(prop, {})
    by_sig = {}
    for v in merged["violations"]:
        by_sig.setdefault(v["sig"], v)
    unlisted, listed = [], []
    for sig, cnt in sorted(merged["viol_counts"].items()):
        (listed if sig in open_k else unlisted).append((sig, cnt))

    lines, rc = [], 0
    for sig, cnt in listed:
        lines.append(f"KNOWN-FINDING: property={prop} sig={sig} observed={cnt} :: {open_k[sig]}")
    os.makedirs(os.path.join(HOME, "replays"), exist_ok=True)
    for sig, cnt in unlisted:
        v = by_sig.get(sig, {"sig": sig, "what": "(witness not retained)", "witness": None})
        path = os.path.join(HOME, "replays", f"{prop}-{slug(sig)}.json")
        with open(path, "w") as f:
            json.dump({"property": prop, "sig": sig, "what": v["what"], "witness": v["witness"], "seed": seed,
                       "tier": tier, "count": cnt}, f, indent=1)
        lines.append(f"VIOLATION property={prop} replay={path}")
        lines.append(f"  sig={sig} count={cnt} what={v['what'][:300]}")
        rc = 1
    if rc == 0 and merged["inconclusive"]:
        rc = 2
        for r in merged["inconclusive"][:10]:
            lines.append(f"INCONCLUSIVE property={prop} reason={r[:3000]}")

    wall = time.time() - t0
    samples = merged["samples"][:MAX_SAMPLES] or [{"note": "no sample recorded"}]
    cov = {"evaluations": merged["evaluations"], "distinct_nontrivial": len(merged["distinct"]),
           "rule": getattr(mod, "RULE", ""), "samples": samples,
           "monitor_counters": dict(sorted(merged["counters"].items())),
           "known_findings_observed": {s: c for s, c in listed},
           "unlisted_violation_signatures": {s: c for s, c in unlisted},
           "inconclusive_reasons": merged["inconclusive"][:20],
           "shards": nshards, "shard_wall_s": merged["shard_wall"]}
    for k, v in merged["extra"].items():
        if k.startswith("_"): continue
        cov[k] = v
    if getattr(mod, "EXHAUSTIVE", None) and mod.EXHAUSTIVE.get(tier): cov["exhaustive"] = True
    ev = {"property_id": prop, "tier": tier, "seed": seed, "level": mod.LEVEL, "coverage": cov,
          "assumptions": getattr(mod, "ASSUMPTIONS", []), "wall_s": round(wall, 2),
          "violations": sum(c for _, c in unlisted),
          "verdict": {0: "held", 1: "violated", 2: "inconclusive"}[rc]}
    os.makedirs(os.path.join(HOME, "evidence"), exist_ok=True)
    with open(os.path.join(HOME, "evidence", f"{prop}.json"), "w") as f:
        json.dump(ev, f, indent=1, default=repr)
    for l in lines: print(l)
    print(f"{prop} tier={tier} seed={seed} verdict={ev['verdict']} evaluations={merged['evaluations']} "
          f"distinct_nontrivial={len(merged['distinct'])} wall={wall:.1f}s")
    return rc

def shard_main(argv):
    prop, tier, seed, idx, n, out = argv[0], argv[1], int(argv[2]), int(argv[3]), int(argv[4]), argv[5]
    mod = importlib.import_module(f"vf.props.{prop.lower()}")
    ctx = Ctx(prop, tier, seed, idx, n, dict(mod.PLAN[tier]))
    rc = 0
    try:
        mod.run_shard(ctx)
    except BaseException as e:
        ctx.note_inconclusive(f"shard{idx}-harness-exception: {type(e).__name__}: {e}\n{traceback.format_exc()[-1500:]}")
        rc = 3
    with open(out + ".tmp", "w") as f: json.dump(ctx.summary(), f, default=repr)
    os.replace(out + ".tmp", out)
    return rc
