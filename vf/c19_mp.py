"""python -m vf.c19_mp <workdir> <seed> <out.json>
Part D of C19: real spawn-ed processes share a RawArray + multiprocessing Lock + one DiskCacher directory through the real
ConcurrentCacher; every getter call, every completed read and every removal is appended (O_APPEND, CLOCK_MONOTONIC) to an
event log from INSIDE the region the cacher's own lock protects; the parent checks the history offline."""
import sys, os, json, time, random

def _log(path, *xs):
    fd = os.open(path, os.O_WRONLY | os.O_APPEND | os.O_CREAT, 0o644)
    try: os.write(fd, (" ".join(str(x) for x in (f"{time.monotonic():.6f}",) + xs) + "\n").encode())
    finally: os.close(fd)

def full_value(key, n=4): return [f"{key}:{i}:" + "x" * 40 for i in range(n)]

class LoggingDisk:
    """DiskCacher wrapper: logs removals and slows writes down so that partial files exist for a while"""
    def __init__(self, directory, log):
        from coba.context.cachers import DiskCacher
        self._d, self._log = DiskCacher(directory), log
    def __contains__(self, key): return key in self._d
    def rmv(self, key):
        _log(self._log, "R", key, os.getpid())
        self._d.rmv(key)
    def get_set(self, key, getter): return self._d.get_set(key, getter)

def worker(cacher, keys, seed, log, n_ops):
    import coba.context.cachers as cc
    class Fast:
        @staticmethod
        def sleep(s): time.sleep(.002)
    cc.time = Fast
    rng = random.Random(seed)
    def getter_for(k):
        def g():
            _log(log, "G", k, os.getpid())
            for line in full_value(k):
                time.sleep(rng.random() * .003)
                yield line
        return g
    for _ in range(n_ops):
        k = rng.choice(keys)
        if rng.random() < .25:
            cacher.rmv(k)
        else:
            try:
                with cacher.get_set(k, getter_for(k)) as f:
                    lines = [l.rstrip("\n") for l in f]
                _log(log, "V", k, os.getpid(), "ok" if lines == full_value(k) else f"bad:{len(lines)}")
            except Exception as e:
                _log(log, "E", k, os.getpid(), type(e).__name__)
    _log(log, "D", "-", os.getpid())

def main():
    wd, seed, outp = sys.argv[1], int(sys.argv[2]), sys.argv[3]
    import multiprocessing as mp
    from ctypes import c_short
    from coba.context.cachers import ConcurrentCacher
    ctx = mp.get_context("spawn")
    rng = random.Random(seed)
    log = os.path.join(wd, "events.log")
    arr, lock = ctx.RawArray(c_short, [0] * 2**16), ctx.Lock()
    cacher = ConcurrentCacher(LoggingDisk(os.path.join(wd, "cache"), log), arr, lock)
    keys = rng.choice([["a"], ["a", "b"], ["k29", "k74"]])
    n = rng.choice([2, 3, 4])
    ps = [ctx.Process(target=worker, args=(cacher, keys, rng.randrange(1 << 30), log, 8), daemon=True) for _ in range(n)]
    for i, p in enumerate(ps):
        os.environ["PYTHONHASHSEED"] = str(i + 1)        # every worker interpreter salts its str hashes differently
        p.start()
    deadline = time.time() + 60
    for p in ps: p.join(max(0, deadline - time.time()))
    hung = [p.pid for p in ps if p.is_alive()]
    for p in ps:
        if p.is_alive(): p.kill()
    out = {"hung": hung, "exitcodes": [p.exitcode for p in ps], "nonzero_counters": sum(1 for v in arr if v != 0), "n": n, "keys": keys}
    with open(outp, "w") as f: json.dump(out, f)

if __name__ == "__main__":
    main()
