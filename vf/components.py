"""Picklable, importable-by-spawn components used inside coba worker processes (must stay module-level)."""
import os, time, random

# every process that imports this module (the case process and the coba workers that unpickle these components) can be asked for the
# stacks of all its threads: SIGUSR1 -> $VERIF_STACKDIR/stack.<pid> (the watchdog of vf.expkit.run_subprocess asks before it kills)
def _register_stack_dump():
    d = os.environ.get("VERIF_STACKDIR")
    if not d: return
    try:
        import faulthandler, signal
        f = open(os.path.join(d, f"stack.{os.getpid()}"), "w")
        faulthandler.register(signal.SIGUSR1, file=f, all_threads=True, chain=False)
        globals()["_STACK_FILE"] = f          # keep the file object alive
    except Exception: pass
_register_stack_dump()

def _append(path, line):
    """atomic O_APPEND event record (one write per event) so histories survive worker processes"""
    fd = os.open(path, os.O_WRONLY | os.O_APPEND | os.O_CREAT, 0o644)
    try: os.write(fd, (line + "\n").encode())
    finally: os.close(fd)

# --------------------------------------------------------------------------------------------- C08
class C08Filter:
    """The filter wrapped by Multiprocessor.  item = (uid, payload).
       mode 'gen'  : returns a generator of k(uid) outputs  (uid, j, pid)
       mode 'value': returns one non-iterator value          (uid, 0, pid)
       Every processed item is logged to an O_APPEND side file (also items with zero outputs / raising items)."""
    def __init__(self, mode, kmap, raising, side, jitter_seed, jitter_ms, exc_type="ValueError"):
        self.exc_type = exc_type
        self.none_uid = None
        self.mode, self.kmap, self.raising, self.side = mode, dict(kmap), set(raising), side
        self.jitter_seed, self.jitter_ms = jitter_seed, jitter_ms

    def _sleep(self, uid, phase):
        if self.jitter_ms:
            r = random.Random(f"{self.jitter_seed}/{uid}/{phase}").random()
            if r < .5: time.sleep(r * 2 * self.jitter_ms / 1000.0)

    def filter(self, item):
        uid = self.none_uid if item is None else item[0]      # the item None stands for the uid it replaced
        pid = os.getpid()
        _append(self.side, f"P {uid} {pid}")
        self._sleep(uid, "pre")
        if uid in self.raising:
            import builtins
            if self.exc_type == "BigValueError": raise ValueError(f"boom-{uid}|" + "x" * 300000)    # larger than a pipe buffer
            if self.exc_type == "TwoArgError": raise TwoArgError("boom", uid)                        # cannot be rebuilt from its args
            raise (getattr(builtins, self.exc_type, None) or InjectedFailure)(f"boom-{uid}")
        none_out = uid in getattr(self, "none_out", ())
        if self.mode == "value":
            return None if none_out else (uid, 0, pid)
        return self._gen(uid, pid, none_out)

    def _gen(self, uid, pid, none_out=False):
        if none_out: yield None                                   # None is a legal output
        big = getattr(self, "big_kb", 0)
        for j in range(self.kmap.get(uid, self.kmap.get(str(uid), 1))):
            yield (uid, j, pid, "x" * (1024 * big)) if big else (uid, j, pid)      # (outputs much larger than a pipe buffer)
        self._sleep(uid, "post")

    @property
    def params(self): return {}

LINEAGE_LOG = []          # parent-side: (event, ordinal, info) in callback / start order

def _base():
    from coba.pipes.multiprocessing import MyProcessLine
    return MyProcessLine

def _build():
    Base = _base()
    class RecProcessLine(Base):
        _count = [0]
        _all   = []
        slow_replacement_s, n_initial = 0, 0
        def __init__(self, line, callback=None, read_wait_store=None):
            self._vf_ord = RecProcessLine._count[0]; RecProcessLine._count[0] += 1
            user_cb = callback
            def cb(worker, user_cb=user_cb):
                LINEAGE_LOG.append(("cb-enter", worker._vf_ord, (bool(worker.poisoned), worker.exception is not None, worker.exitcode)))
                try:
                    if user_cb: user_cb(worker)
                finally:
                    LINEAGE_LOG.append(("cb-exit", worker._vf_ord, None))
            super().__init__(line, cb, read_wait_store)
        def start(self):
            LINEAGE_LOG.append(("start", self._vf_ord, None))
            if RecProcessLine.slow_replacement_s and self._vf_ord >= RecProcessLine.n_initial:
                time.sleep(RecProcessLine.slow_replacement_s)          # a slow launch of a replacement worker
            super().start()
            RecProcessLine._all.append(self)
    RecProcessLine.__module__ = "vf.components"
    RecProcessLine.__qualname__ = "RecProcessLine"
    return RecProcessLine

def __getattr__(name):
    # `vf.components.RecProcessLine` is resolved lazily (also in spawn-ed children, when the Process object is unpickled)
    if name == "RecProcessLine":
        cls = _build()
        globals()["RecProcessLine"] = cls
        return cls
    raise AttributeError(name)

# --------------------------------------------------------------------------------------------- experiments (C01/C02/C03)
import hashlib as _hashlib

class TwoArgError(Exception):
    """an exception class whose __init__ has its own signature: pickle cannot rebuild it from self.args"""
    def __init__(self, a, b): super().__init__(f"{a}-{b}")

def _failure(msg, style=None):
    """the injected failure in one of the shapes an exception can have: with a message, without one (a bare `raise E` / `assert x`:
       str(e) == ''), with a message of several lines that also holds format characters"""
    if style == "empty": return InjectedFailure()
    if style == "multiline": return InjectedFailure(msg + "\n  second line {0} %s {x}\n")
    return InjectedFailure(msg)

class InjectedFailure(Exception):
    """raised by the fault-injecting components below"""

def _h(*xs):
    return int.from_bytes(_hashlib.blake2b(repr(xs).encode("utf8", "backslashreplace"), digest_size=6).digest(), "big")

def _env_key(params):
    """identifies one environment of a generated experiment: group tag + shuffle seed of a shuffle(n=k) fan-out"""
    return f"{params.get('tag')}|{params.get('shuffle_seed')}"

class StatefulLearner:
    """Deterministic learner whose policy depends on everything it has learned (stable hashing, no PYTHONHASHSEED dependence).
       fmt: 'ap' -> (action, prob) ; 'pmf' -> PMF ; 'kw' -> (action, prob, {'h': ...}) ; 'a' -> bare action
       fail = ('predict'|'learn'|'params', k): raise InjectedFailure at the k-th call (0-based) of that method."""
    def __init__(self, tag, fmt="ap", fail=None, uni=False):
        self.info = True                           # every stateful learner writes CobaContext.learning_info in predict
        self.armkeys = fmt == "armkeys"            # ... under non-str keys too (per-arm counters keyed by the arm's index)
        if fmt in ("info", "armkeys"): fmt = "ap"
        self.uni = bool(uni)
        self.tag, self.fmt, self.fail = tag, fmt, fail
        self.h, self.n_pred, self.n_learn = 0, 0, 0
    @property
    def params(self):
        if self.fail and self.fail[0] == "params": raise _failure(f"learner-params tag={self.tag}", (self.fail + (None,))[2])
        p = {"family": "vf_stateful", "tag": self.tag, "fmt": self.fmt}
        if self.uni: p["note"] = UNI_NOTE
        return p
    def predict(self, context, actions):
        if self.fail and self.fail[0] == "predict" and self.n_pred == self.fail[1]: raise _failure(f"learner-predict tag={self.tag}", (self.fail + (None,))[2])
        self.n_pred += 1
        if self.info:
            from coba.context import CobaContext
            CobaContext.learning_info[f"info_{self.tag}"] = self.n_pred
        n = len(actions); i = self.h % n
        if self.armkeys:
            from coba.context import CobaContext
            CobaContext.learning_info[i] = self.n_pred
        if self.fmt == "pmf":
            if n == 1: return [1.0]
            return [0.5 if j == i else 0.5 / (n - 1) for j in range(n)]
        if self.fmt == "kw": return actions[i], 1 / n, {"h": self.h % 997}
        if self.fmt == "a":  return actions[i]
        return actions[i], 1 / n
    def learn(self, context, action, reward, probability, **kw):
        if self.fail and self.fail[0] == "learn" and self.n_learn == self.fail[1]: raise _failure(f"learner-learn tag={self.tag}", (self.fail + (None,))[2])
        self.n_learn += 1
        self.h = _h(self.h, repr(context), repr(action), round(float(reward), 6), probability, sorted(kw.items()))

class RngInitLearner(StatefulLearner):
    """a learner that draws from its own seeded CobaRandom in the constructor (random initial weights) and keeps drawing from the
       same generator while it predicts: the generator is part way through its stream when the experiment copies / pickles it"""
    def __init__(self, tag, seed, fail=None, uni=False):
        super().__init__(tag, "ap", fail, uni)
        from coba.random import CobaRandom
        self.rng = CobaRandom(seed)
        self.w0 = self.rng.randoms(1 + seed % 4) + self.rng.gausses(seed % 3)      # an odd number of gaussians leaves one waiting
    def predict(self, context, actions):
        a, p = super().predict(context, actions)
        j = self.rng.randint(0, len(actions) - 1)
        g = self.rng.gauss(0, 1) if self.n_pred % 3 == 0 else 0
        return actions[(actions.index(a) + j + (1 if g > 0 else 0)) % len(actions)], p

class MemoryLearner(StatefulLearner):
    """a learner that is a container of what it has seen: len() == 0 (falsy) while pristine"""
    def __len__(self): return self.n_learn

UNI_NOTE = "na\u00efve \u03b5-greedy \u2014 \u5b66\u7fd2 \U0001f600"

class RecEvaluator:
    """Custom evaluator: yields rows that expose the learner's state trajectory, the experiment seed seen inside the
       worker and the number of interactions; logs 'EVAL env_tag lrn_tag val_tag pid' to an O_APPEND side file."""
    def __init__(self, tag, side, nrows=4, fail_after=None, fail_params=False, fail_style=None):
        self.fail_style = fail_style
        self.tag, self.side, self.nrows, self.fail_after, self.fail_params = tag, side, nrows, fail_after, fail_params
    @property
    def params(self):
        if self.fail_params: raise _failure(f"evaluator-params tag={self.tag}", getattr(self, "fail_style", None))
        return {"vf_eval": self.tag, "nrows": self.nrows}
    def evaluate(self, environment, learner):
        from coba.context import CobaContext
        from coba.safety import SafeLearner, SafeEnvironment
        etag = _env_key(SafeEnvironment(environment).params)
        ltag = getattr(learner, "tag", None) or type(learner).__name__
        if self.side: _append(self.side, f"EVAL {etag} {ltag} {self.tag} {os.getpid()}")
        seed = CobaContext.store.get("experiment_seed")
        sl = SafeLearner(learner, seed)
        from coba.environments import Unbatch
        for i, inter in enumerate(Unbatch().filter(environment.read())):
            if i >= self.nrows: break
            if self.fail_after is not None and i == self.fail_after: raise _failure(f"evaluator-evaluate tag={self.tag}", getattr(self, "fail_style", None))
            a, p, kw = sl.predict(inter["context"], inter["actions"])
            r = inter["rewards"](a) if callable(inter["rewards"]) else inter["rewards"][inter["actions"].index(a)]
            sl.learn(inter["context"], a, r, p, **kw)
            yield {"i": i, "seed": seed, "reward": r, "p": p, "state": getattr(learner, "h", None), "val": self.tag}

class RecSummaryEvaluator(RecEvaluator):
    """... and closes every evaluation with a summary row, also that of an environment without interactions"""
    def evaluate(self, environment, learner):
        n = 0
        for row in super().evaluate(environment, learner):
            n += 1; yield row
        yield {"i": -1, "seed": None, "reward": None, "p": None, "state": n, "val": self.tag + "-summary"}

def rec_function_evaluator(environment, learner):
    """a bare-function evaluator (module-level so it pickles)"""
    n = 0
    for _ in environment.read(): n += 1
    yield {"n_interactions": n, "lrn": getattr(learner, "tag", None)}

class LoggingCB:
    """SequentialCB that logs which triple it evaluates (side file) before delegating"""
    def __init__(self, side, tag="cb", **kw):
        from coba.evaluators import SequentialCB
        self.side, self.tag, self.kw = side, tag, kw
        self._cb = SequentialCB(**kw)
    @property
    def params(self):
        return {**self._cb.params, "vf_eval": self.tag}
    def evaluate(self, environment, learner):
        from coba.safety import SafeEnvironment
        etag = _env_key(SafeEnvironment(environment).params)
        ltag = getattr(learner, "tag", None) or type(learner).__name__
        if self.side: _append(self.side, f"EVAL {etag} {ltag} {self.tag} {os.getpid()}")
        return self._cb.evaluate(environment, learner)

class LoggingRejection(LoggingCB):
    """RejectionCB (needs logged environments) that logs which triple it evaluates"""
    def __init__(self, side, tag="rej", **kw):
        from coba.evaluators import RejectionCB
        self.side, self.tag, self.kw = side, tag, kw
        self._cb = RejectionCB(**kw)

class FailingEnv:
    """environment wrapper raising at read item k or in params"""
    def __init__(self, env, where, k=0, style=None):
        self.env, self.where, self.k, self.style = env, where, k, style
    @property
    def params(self):
        if self.where == "params": raise _failure("environment-params", getattr(self, "style", None))
        return self.env.params
    def read(self):
        for i, x in enumerate(self.env.read()):
            if self.where == "read" and i == self.k: raise _failure("environment-read", getattr(self, "style", None))
            yield x

class SleepyFilter:
    """result-neutral environment filter that sleeps a seeded amount (varies worker timing)"""
    def __init__(self, ms, seed): self.ms, self.seed = ms, seed
    @property
    def params(self): return {}
    def filter(self, interactions):
        r = random.Random(self.seed).random()
        time.sleep(r * self.ms / 1000.0)
        return interactions

# --------------------------------------------------------------------------------------------- C19 part E
class CacheUser:
    """filter run inside CobaMultiprocessor workers: every item reads a cached entry through CobaContext.cacher (which
    CobaMultiprocessor replaces by a ConcurrentCacher shared between the workers)"""
    def __init__(self, log, nkeys): self.log, self.nkeys = log, nkeys
    @property
    def params(self): return {}
    def filter(self, item):
        import coba.context.cachers as cc
        from coba.context import CobaContext
        class Fast:
            @staticmethod
            def sleep(s): time.sleep(.003)
        cc.time = Fast
        key = f"k{item % self.nkeys}"
        want = [f"{key}:{i}:" + "x" * 30 for i in range(5)]
        def getter():
            _append(self.log, f"G {key} {os.getpid()}")
            for line in want:
                time.sleep(.4)                  # slow enough for the other workers (spawned a few 100 ms apart) to arrive meanwhile
                yield line
        try:
            with CobaContext.cacher.get_set(key, getter) as f:
                lines = [l.rstrip("\n") for l in f]
            yield ("ok" if lines == want else f"bad:{len(lines)}", key, os.getpid())
        except Exception as e:
            yield (f"raise:{type(e).__name__}", key, os.getpid())
