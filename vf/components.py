"""Picklable, importable-by-spawn components used inside coba worker processes (must stay module-level)."""
import os, time, random

def _append(path, line):
    """atomic O_APPEND event record (one write per event) so histories survive worker processes"""
    fd = os.open(path, os.O_WRONLY | os.O_APPEND | os.O_CREAT, 0o644)
    try: os.write(fd, (line + "\n").encode())
    finally: os.close(fd)

# --------------------------------------------------------------------------------------------- C08
class C08Filter:
    """The filter wrapped by Multiprocessor.  item = (uid, payload).
       mode 'gen'  : returns a generator of k(uid) outputs  (uid, j, pid)
       mode 'value': returns one non-iterator value          (uid, 0, pid)
       Every processed item is logged to an O_APPEND side file (also items with zero outputs / raising items)."""
    def __init__(self, mode, kmap, raising, side, jitter_seed, jitter_ms):
        self.mode, self.kmap, self.raising, self.side = mode, dict(kmap), set(raising), side
        self.jitter_seed, self.jitter_ms = jitter_seed, jitter_ms

    def _sleep(self, uid, phase):
        if self.jitter_ms:
            r = random.Random(f"{self.jitter_seed}/{uid}/{phase}").random()
            if r < .5: time.sleep(r * 2 * self.jitter_ms / 1000.0)

    def filter(self, item):
        uid = item[0]
        pid = os.getpid()
        _append(self.side, f"P {uid} {pid}")
        self._sleep(uid, "pre")
        if uid in self.raising:
            raise ValueError(f"boom-{uid}")
        if self.mode == "value":
            return (uid, 0, pid)
        return self._gen(uid, pid)

    def _gen(self, uid, pid):
        for j in range(self.kmap.get(uid, self.kmap.get(str(uid), 1))):
            yield (uid, j, pid)
        self._sleep(uid, "post")

    @property
    def params(self): return {}

LINEAGE_LOG = []          # parent-side: (event, ordinal, info) in callback / start order

def _base():
    from coba.pipes.multiprocessing import MyProcessLine
    return MyProcessLine

def _build():
    Base = _base()
    class RecProcessLine(Base):
        _count = [0]
        _all   = []
        def __init__(self, line, callback=None, read_wait_store=None):
            self._vf_ord = RecProcessLine._count[0]; RecProcessLine._count[0] += 1
            user_cb = callback
            def cb(worker, user_cb=user_cb):
                LINEAGE_LOG.append(("cb-enter", worker._vf_ord, (bool(worker.poisoned), worker.exception is not None, worker.exitcode)))
                try:
                    if user_cb: user_cb(worker)
                finally:
                    LINEAGE_LOG.append(("cb-exit", worker._vf_ord, None))
            super().__init__(line, cb, read_wait_store)
        def start(self):
            LINEAGE_LOG.append(("start", self._vf_ord, None))
            super().start()
            RecProcessLine._all.append(self)
    RecProcessLine.__module__ = "vf.components"
    RecProcessLine.__qualname__ = "RecProcessLine"
    return RecProcessLine

def __getattr__(name):
    # `vf.components.RecProcessLine` is resolved lazily (also in spawn-ed children, when the Process object is unpickled)
    if name == "RecProcessLine":
        cls = _build()
        globals()["RecProcessLine"] = cls
        return cls
    raise AttributeError(name)
