import sys
from vf.core import shard_main
if __name__ == "__main__":
    sys.exit(shard_main(sys.argv[1:]))
