"""Eager reference model + real-object builders for C13 (vf/props/c13.py).

The model works on plain lists (dense) and plain dicts (sparse) only.  Categorical cells are represented by MCat (a
str subclass carrying its levels) so that the model never touches coba code; `canon` maps coba's Categorical and MCat
to the same canonical form.  `Invalid` is raised whenever a spec leaves the domain on which the property statement
fixes an answer (see ASSUMPTIONS in c13.py) -- the generator retries, the shrinker rejects the candidate.
"""
from itertools import count

class Invalid(Exception): pass
_ABSENT = object()

# ------------------------------------------------------------------------------------------ cells
class MCat(str):
    def __new__(cls, v, levels):
        o = str.__new__(cls, v); o.levels = tuple(levels); return o
    @property
    def onehot(self):
        return tuple(1 if l == str.__str__(self) else 0 for l in self.levels)

def from_spec(c):
    if isinstance(c, dict): return MCat(c["cat"][0], c["cat"][1])
    if isinstance(c, list): return tuple(from_spec(x) for x in c)
    return c
def to_spec(v):
    if isinstance(v, MCat): return {"cat": [str.__str__(v), list(v.levels)]}
    if isinstance(v, (tuple, list)): return [to_spec(x) for x in v]
    return v
def real_cell(c):
    if isinstance(c, dict):
        from coba.primitives import Categorical
        return Categorical(c["cat"][0], list(c["cat"][1]))
    if isinstance(c, list): return tuple(real_cell(x) for x in c)
    return c
def to_spec_row(row):  return [to_spec(v) for v in row]
def to_spec_dict(d):   return [[k, to_spec(v)] for k, v in d.items()]
def real_row_dense(sr):  return [real_cell(c) for c in sr]
def real_row_sparse(sp): return {k: real_cell(c) for k, c in sp}

def canon(v):
    if v is None: return ("none",)
    if isinstance(v, bool): return ("bool", v)
    if isinstance(v, (int, float)): return ("num", v)
    if isinstance(v, MCat): return ("cat", str.__str__(v), tuple(map(str, v.levels)))
    if isinstance(v, str):
        lv = getattr(v, "levels", None)
        if lv is not None and type(v).__name__ == "Categorical": return ("cat", str.__str__(v), tuple(map(str, lv)))
        return ("str", str.__str__(v))
    if isinstance(v, (tuple, list)): return ("seq",) + tuple(canon(x) for x in v)
    return ("other", type(v).__name__, repr(v)[:80])
def ckey(k): return (type(k).__name__, k)
def canon_dict(d): return {ckey(k): canon(v) for k, v in d.items()}

# ------------------------------------------------------------------------------------------ encoders
def _id(x):   return x
def _neg(x):  return -x
def _inc(x):  return x + 1
def _dbl(x):  return x * 2
def _bang(x): return str(x) + "!"
_PLAIN = {"int": int, "float": float, "str": str, "id": _id, "neg": _neg, "inc": _inc, "dbl": _dbl, "bang": _bang}

def enc_model(name):
    if name in _PLAIN: return _PLAIN[name]
    if name.startswith("nom:"):
        levels = name[4:].split("|")
        def nom(x, levels=levels):
            if type(x) is str and x in levels: return MCat(x, levels)
            raise KeyError(x)
        return nom
    raise Invalid(f"unknown encoder {name}")
_REAL_NOM = {}
def enc_real(name):
    if name in _PLAIN: return _PLAIN[name]
    if name not in _REAL_NOM:
        from coba.encodings import CategoricalEncoder
        _REAL_NOM[name] = CategoricalEncoder(name[4:].split("|")).encode
    return _REAL_NOM[name]

def _simple(v):
    """results the canonical form can compare exactly"""
    if isinstance(v, float) and v != v: return False
    return v is None or isinstance(v, (int, float, str))

def _apply(e, v):
    try: r = e(v)
    except Exception as ex: raise Invalid(f"encoder raises on {v!r}: {ex}")
    if not _simple(r): raise Invalid("encoder result not comparable")
    return r

# ------------------------------------------------------------------------------------------ state
class State:
    def __init__(self, layout):
        self.layout = layout; self.rows = []; self.headers = None; self.universe = []; self.zero = {}
        self.label = None; self.feats_ok = False; self.arff_fresh = False; self.missing = []
        self.posmap = None     # sparse rows behind a header map with integer positions: position -> current header name
    def copy(self):
        s = State(self.layout)
        s.rows = [r.copy() if isinstance(r, dict) else list(r) for r in self.rows]
        s.headers = None if self.headers is None else dict(self.headers)
        s.universe = list(self.universe); s.zero = dict(self.zero); s.label = self.label
        s.feats_ok = self.feats_ok; s.arff_fresh = self.arff_fresh; s.missing = list(self.missing)
        if hasattr(self, "_ncols"): s._ncols = self._ncols
        s.posmap = None if self.posmap is None else dict(self.posmap)
        return s
    def alive_rows(self): return self.rows
    def ncols(self):
        if self.layout == "dense": return self._ncols
        return len(self.universe)
    def ncols_any(self):
        if self.layout == "dense": return self._ncols
        return max([len(r) for r in self.rows], default=0)
    def name_of(self, pos):
        for n, p in (self.headers or {}).items():
            if p == pos: return n
        raise Invalid("no name")
    def name_or_none(self, pos):
        for n, p in (self.headers or {}).items():
            if p == pos: return n
        return None
    def partial_headers(self):
        return self.layout == "dense" and bool(self.headers) and len(self.headers) < self._ncols
    def has_cats(self):
        it = (v for r in self.rows for v in (r.values() if isinstance(r, dict) else r))
        return any(isinstance(v, MCat) for v in it)
    def feats_of(self, row):
        if self.layout == "dense": return [v for i, v in enumerate(row) if i != self.label]
        return {k: v for k, v in row.items() if k != self.label}
    def label_of(self, row): return row[self.label]

# ------------------------------------------------------------------------------------------ sources (model)
def _arff_type(t):
    tl = t.lower()
    if tl in ("numeric", "real", "integer"): return ("num", None)
    if tl == "string": return ("str", None)
    if t.startswith("{"): return ("nom", [_unquote(l) for l in t[1:-1].split(",")])   # a level may be written '' (the empty level) or '?'
    if t.startswith("x:") and t[2:] in _PLAIN: return ("x", t[2:])       # LazyDense/LazySparse with a user encoder
    raise Invalid(t)

def _unquote(l):
    return l[1:-1] if len(l) >= 2 and l[0] == l[-1] == "'" else l

def _arff_cell(tok, typ, levels):
    """the cell a column of that type holds for that token.  Whether '' / '?' stand for a missing value is the column
    type's business: a numeric column can not hold them (None), a string column holds '' as an ordinary value ('?' is
    its missing marker), a nominal column holds them when it declares them as levels; a custom encoder decides itself"""
    if typ == "x":
        if tok in ("?", ""):
            try: return _apply(_PLAIN[levels], tok)
            except Invalid: raise Invalid("missing token under a custom encoder that raises on it")
        return _apply(_PLAIN[levels], tok)
    if typ == "num": return None if tok in ("?", "") else float(tok)
    if typ == "str": return None if tok == "?" else tok
    if tok in levels: return MCat(tok, levels)
    if tok in ("?", ""): return None
    raise Invalid("unknown level")

def marker_features(layout, src):
    """ARFF sources only: which kinds of cells hold a token that looks like a missing marker ('' or '?'):
    value.<column kind> where the column's type makes it an ordinary value, missing.<column kind> where it is missing"""
    if not src["kind"].startswith("arff"): return set()
    types = [_arff_type(a[1]) for a in src["attrs"]]
    if layout != "dense": types = [(ty, (["0"] + lv) if ty == "nom" else lv) for ty, lv in types]
    out = set()
    for row in src["rows"]:
        for i, tok in (enumerate(row) if layout == "dense" else row):
            if tok in ("?", ""):
                what = "missing" if _arff_cell(tok, *types[i]) is None else "value"
                out.add(f"{what}.{types[i][0]}" + ("-empty" if tok == "" and what == "missing" else ""))
                if what == "value": out.add("value@" + layout); out.add("value@" + src["kind"])
    return out

def demarked(layout, src):
    """the same ARFF source with every marker-looking token that is an ordinary value replaced by an unremarkable
    value of its column (None when there is no such token or no replacement): used by the shrinker only"""
    if not src["kind"].startswith("arff"): return None
    types = [_arff_type(a[1]) for a in src["attrs"]]
    def other(i, tok):
        ty, lv = types[i]
        if tok not in ("?", "") or ty == "num" or (ty == "str" and tok == "?") or (ty == "nom" and tok not in lv): return tok
        if ty == "nom": return next((l for l in lv if l not in ("?", "")), tok)
        return "1" if ty == "x" else "a"
    if layout == "dense": rows = [[other(i, t) for i, t in enumerate(r)] for r in src["rows"]]
    else: rows = [[[i, other(i, t)] for i, t in r] for r in src["rows"]]
    return None if rows == src["rows"] else dict(src, rows=rows)

def model_source(layout, src):
    st = State(layout)
    kind = src["kind"]
    if kind in ("arff_lazy", "arff_text"):
        names = [a[0] for a in src["attrs"]]
        if len(set(names)) != len(names) or not names: raise Invalid("attr names")
        types = [_arff_type(a[1]) for a in src["attrs"]]
        if kind == "arff_text" and any(ty == "x" for ty, _ in types): raise Invalid("custom encoders need arff_lazy")
        if kind == "arff_text":
            # text can only carry what the plain dialect can write: an empty field between two commas of a dense line
            if any(ty == "nom" and "?" in lv for ty, lv in types): raise Invalid("a '?' level needs quoted data")
            toks = [t for r in src["rows"] for t in (r if layout == "dense" else [p[1] for p in r])]
            if "" in toks and (layout != "dense" or len(names) == 1): raise Invalid("an empty value needs quoted data")
        st.arff_fresh = True
        if layout == "dense":
            st._ncols = len(names)
            st.headers = {n: i for i, n in enumerate(names)}
            for toks in src["rows"]:
                if len(toks) != len(names): raise Invalid("ragged")
                st.rows.append([_arff_cell(t, ty, lv) for t, (ty, lv) in zip(toks, types)])
                st.missing.append("?" in toks)
        else:
            st.universe = list(names)
            st.posmap = dict(enumerate(names))
            types = [(ty, (["0"] + lv) if ty == "nom" else lv) for ty, lv in types]
            for ty, lv in types:
                if ty == "nom" and len(set(lv)) != len(lv): raise Invalid("level 0 used")
            def xzero(name):                                   # coba's rule: encoder('0') != 0 -> the column is not sparse
                try: z = _PLAIN[name]("0"); return z if z != 0 else _ABSENT
                except Exception: return _ABSENT
            xz = {n: xzero(lv) for n, (ty, lv) in zip(names, types) if ty == "x"}
            st.zero = {n: (0 if ty == "num" or (ty == "x" and xz[n] is _ABSENT) else None) for n, (ty, lv) in zip(names, types)}
            for pairs in src["rows"]:
                row = {}
                present = {i: t for i, t in pairs}
                if len(present) != len(pairs): raise Invalid("dup keys")
                for i, (n, (ty, lv)) in enumerate(zip(names, types)):
                    if i in present: row[n] = _arff_cell(present[i], ty, lv)
                    elif ty == "str": row[n] = "0"
                    elif ty == "nom": row[n] = MCat("0", lv)
                    elif ty == "x" and xz[n] is not _ABSENT: row[n] = xz[n]
                st.rows.append(row)
                st.missing.append("?" in present.values())
        return st
    if kind == "csv_text":
        if layout != "dense": raise Invalid("csv is dense")
        rows = [list(r) for r in src["rows"]]
        if not rows or len({len(r) for r in rows}) != 1 or not rows[0]: raise Invalid("ragged/empty")
        ok = lambda c: isinstance(c, str) and not any(ch in c for ch in ',"\r\n')
        if not all(ok(c) for r in rows for c in r): raise Invalid("csv dialect questions are not C13's")
        if len(rows[0]) == 1 and any(r[0] == "" for r in rows): raise Invalid("a blank line is not a row")
        st._ncols = len(rows[0]); st.rows = rows; st.missing = [False] * len(rows)
        hdr = src.get("header")
        if hdr is not None:
            if not hdr or len(hdr) > st._ncols or len(set(hdr)) != len(hdr) or not all(ok(h) and h for h in hdr): raise Invalid("csv header")
            st.headers = {n: i for i, n in enumerate(hdr)}
        return st
    if layout == "dense":
        if kind not in ("list", "tuple", "lazy", "lazy_loader"): raise Invalid(kind)
        rows = [[from_spec(c) for c in r] for r in src["rows"]]
        if not rows or len({len(r) for r in rows}) != 1: raise Invalid("ragged/empty")
        st._ncols = len(rows[0]); st.rows = rows; st.missing = [False] * len(rows)
        return st
    if kind not in ("dict", "lazy", "lazy_loader"): raise Invalid(kind)
    st.universe = [c[0] for c in src["cols"]]
    if len(set(st.universe)) != len(st.universe): raise Invalid("dup cols")
    st.zero = {c[0]: c[1] for c in src["cols"]}
    for pairs in src["rows"]:
        row = {k: from_spec(c) for k, c in pairs}
        if len(row) != len(pairs) or any(k not in st.zero for k in row): raise Invalid("keys")
        st.rows.append(row)
    if not st.rows: raise Invalid("empty")
    st.missing = [False] * len(st.rows)
    return st

# ------------------------------------------------------------------------------------------ stages (model)

def _apply_simple_or_cat(e, v):
    try: r = e(v)
    except Exception as ex: raise Invalid(f"encoder raises on {v!r}")
    if not (_simple(r) or isinstance(r, MCat)): raise Invalid("result")
    return r

def enc_ok(st, col, name):
    try:
        if st.layout == "dense":
            e = enc_model(name)
            for r in st.rows: _apply_simple_or_cat(e, r[col])
        else:
            _sparse_encode_col_any(st, col, name)
        return True
    except Invalid:
        return False

def _sparse_encode_col_any(st, k, name):
    """returns (new cell per row or _ABSENT, new implicit zero) following coba's documented default-zero rule; Invalid
    when that rule and 'encode the column's own implicit zero' disagree, or an encoder raises"""
    e = enc_model(name)
    try: z = e("0"); nsp = bool(z != 0)
    except Exception: z = None; nsp = False
    rz = st.zero.get(k)
    may_be_absent = any(k not in r for r in st.rows)
    if rz is not None or may_be_absent:
        if rz is None: raise Invalid("absent entries in a column without implicit zero")
        ez = _apply_simple_or_cat(e, rz)
        if nsp:
            if canon(ez) != canon(z): raise Invalid("default-zero rule ambiguous")
        else:
            if not (isinstance(ez, (int, float)) and not isinstance(ez, bool) and ez == 0): raise Invalid("default-zero rule ambiguous")
    cells = []
    for r in st.rows:
        if k in r: cells.append(_apply_simple_or_cat(e, r[k]))
        elif nsp: cells.append(z)
        else: cells.append(_ABSENT)
    newzero = None if nsp else (0 if rz is not None else None)
    return cells, newzero

def _pred_model(st, pred, i, row):
    p = pred["p"]
    if p == "missing":
        if not st.arff_fresh: raise Invalid("missing flag only on fresh ARFF rows")
        return st.missing[i]
    if p == "lenodd": return len(row) % 2 == 1
    if st.layout == "dense":
        if p == "eq":
            k = pred["key"]
            if isinstance(k, str):
                if not st.headers or k not in st.headers: raise Invalid("pred name")
                k = st.headers[k]
            if not (isinstance(k, int) and 0 <= k < len(row)): raise Invalid("pred pos")
            return row[k] == from_spec(pred["val"])
        if p == "has":
            v = from_spec(pred["val"])
            return any(c is v or c == v for c in row)
    else:
        if p == "eq":
            if pred["key"] not in row: raise Invalid("pred key absent")
            return row[pred["key"]] == from_spec(pred["val"])
        if p == "haskey": return pred["key"] in row
    raise Invalid(f"pred {p}")

def apply_stage(st, s):
    k = s["k"]
    dense = st.layout == "dense"
    was_fresh = st.arff_fresh
    row_only = False
    if k == "head":
        if dense:
            if s["form"] == "pmap":                          # a mapping that names only some of the columns
                pairs = [(n, p) for n, p in s["map"]]
                names = [n for n, _ in pairs]; poss = [p for _, p in pairs]
                if not pairs or len(set(names)) != len(names) or len(set(poss)) != len(poss): raise Invalid("head map")
                if any(not isinstance(n, str) for n in names): raise Invalid("head names")
                if any(isinstance(p, bool) or not isinstance(p, int) or not 0 <= p < st._ncols for p in poss): raise Invalid("head pos")
                st.headers = dict(pairs)
            else:
                names = s["names"]
                if len(set(names)) != len(names) or not names: raise Invalid("head names")
                if len(names) > st._ncols or (len(names) < st._ncols and s["form"] != "seq"): raise Invalid("head names")
                if any(not isinstance(n, str) for n in names): raise Invalid("head names")
                if s["form"] == "perm" and sorted(s.get("order", [])) != list(range(len(names))): raise Invalid("order")
                st.headers = {n: i for i, n in enumerate(names)}
        else:
            if s["form"] == "seq":
                if sorted(st.universe, key=repr) != list(range(len(st.universe))): raise Invalid("seq head needs 0..n-1")
                if len(s["names"]) != len(st.universe) or not st.universe: raise Invalid("head names")
                fwd = {n: i for i, n in enumerate(s["names"])}
            else:
                fwd = {n: key for n, key in s["map"]}
                if len(fwd) != len(s["map"]): raise Invalid("dup names")
            if len(set(fwd.values())) != len(fwd) or set(fwd.values()) != set(st.universe): raise Invalid("head map must cover the table")
            if any(not isinstance(n, str) for n in fwd): raise Invalid("names")
            inv = {v: n for n, v in fwd.items()}
            st.rows = [{inv[kk]: v for kk, v in r.items()} for r in st.rows]
            st.universe = [inv[kk] for kk in st.universe]
            st.zero = {inv[kk]: z for kk, z in st.zero.items()}
            if st.label is not None: st.label = inv.get(st.label)
            # an integer label after this stage means 'the column this header map puts at that position'; when the
            # keys under the map are names themselves (a second header map, ARFF names) no position is left
            pm = {key: n for n, key in fwd.items() if isinstance(key, int) and not isinstance(key, bool)}
            st.posmap = pm if len(pm) == len(fwd) and pm else None
    elif k == "encode":
        if dense:
            if s["form"] == "seq":
                if len(s["encs"]) != st._ncols or not s["encs"]: raise Invalid("one encoder per column")
                per = dict(enumerate(s["encs"]))
            else:
                per = {}
                for key, name in s["items"]:
                    if isinstance(key, str):
                        if not st.headers or key not in st.headers: raise Invalid("encode name")
                        key = st.headers[key]
                    if not (isinstance(key, int) and not isinstance(key, bool) and 0 <= key < st._ncols): raise Invalid("encode pos")
                    if key in per: raise Invalid("two encoders for one column")
                    per[key] = name
            if not st.rows and not per: pass
            for pos, name in per.items():
                e = enc_model(name)
                for r in st.rows: r[pos] = _apply_simple_or_cat(e, r[pos])
        else:
            if s["form"] == "seq":
                if sorted(st.universe, key=repr) != list(range(len(st.universe))): raise Invalid("seq enc needs 0..n-1")
                if len(s["encs"]) != len(st.universe) or not s["encs"]: raise Invalid("one encoder per column")
                items = list(enumerate(s["encs"]))
            else:
                items = [(a, b) for a, b in s["items"]]
            if len({a for a, _ in items}) != len(items): raise Invalid("dup enc keys")
            for key, name in items:
                if key not in st.universe: raise Invalid("enc key")
                cells, nz = _sparse_encode_col_any(st, key, name)
                for r, c in zip(st.rows, cells):
                    if c is not _ABSENT: r[key] = c
                st.zero[key] = nz
    elif k == "drop":
        pred = s.get("pred")
        cols = s["cols"]
        if not cols and not pred: raise Invalid("empty drop")
        if any(isinstance(c, bool) or not isinstance(c, (int, str)) for c in cols): raise Invalid("drop col type")
        if pred:
            keep = [not _pred_model(st, pred, i, r) for i, r in enumerate(st.rows)]
            st.rows = [r for r, kp in zip(st.rows, keep) if kp]
            st.missing = [m for m, kp in zip(st.missing, keep) if kp]
        if not cols: row_only = True
        if dense:
            dropped = set()
            for c in cols:
                if isinstance(c, str):
                    if st.headers and c in st.headers: dropped.add(st.headers[c])
                elif 0 <= c < st._ncols: dropped.add(c)
                elif c < 0: raise Invalid("negative drop")
            keep_pos = [i for i in range(st._ncols) if i not in dropped]
            if dropped:
                st.rows = [[r[i] for i in keep_pos] for r in st.rows]
                if st.headers is not None:
                    new = {p: j for j, p in enumerate(keep_pos)}
                    st.headers = {n: new[p] for n, p in st.headers.items() if p in new}
                    if not st.headers: st.headers = None      # nothing left to name
                if st.label is not None:
                    st.label = keep_pos.index(st.label) if st.label in keep_pos else None
                st._ncols = len(keep_pos)
        else:
            ds = set(c for c in cols if c in st.universe)
            if ds:
                st.rows = [{kk: v for kk, v in r.items() if kk not in ds} for r in st.rows]
                st.universe = [u for u in st.universe if u not in ds]
                for d in ds: st.zero.pop(d, None)
                if st.label in ds: st.label = None
                if st.posmap: st.posmap = {p: n for p, n in st.posmap.items() if n not in ds}
    elif k == "label":
        if st.label is not None: raise Invalid("one label stage")
        key = s["key"]
        if dense:
            if isinstance(key, str):
                if not st.headers or key not in st.headers: raise Invalid("label name")
                key = st.headers[key]
            if not (isinstance(key, int) and not isinstance(key, bool) and 0 <= key < st._ncols): raise Invalid("label pos")
            st.label = key
        else:
            if s.get("via") == "pos":                          # label given by position on rows keyed by header name
                if not st.posmap or isinstance(key, (str, bool)) or key not in st.posmap: raise Invalid("label pos")
                key = st.posmap[key]
            elif st.posmap and not isinstance(key, str): raise Invalid("an integer label on rows with a header map is a position")
            if key not in st.universe: raise Invalid("label key")
            for r in st.rows: r.setdefault(key, 0)
            st.zero[key] = None
            st.label = key
        st.feats_ok = True
        st.arff_fresh = False
        return st
    elif k == "cat":
        tipe = s["tipe"]
        if tipe not in (None, "onehot", "onehot_tuple", "string"): raise Invalid("tipe")
        if tipe is None or not st.has_cats() or not st.rows:
            row_only = True                                   # rows pass through untouched
        elif dense:
            catpos = [i for i in range(st._ncols) if any(isinstance(r[i], MCat) for r in st.rows)]
            if any(not isinstance(r[i], MCat) for r in st.rows for i in catpos): raise Invalid("categorical column with other cells")
            widths = {i: len(st.rows[0][i].levels) for i in catpos}
            if any(len(r[i].levels) != widths[i] for r in st.rows for i in catpos): raise Invalid("levels differ")
            new = []
            for r in st.rows:
                o = []
                for i, v in enumerate(r):
                    if i not in widths: o.append(v)
                    elif tipe == "string": o.append(str.__str__(v))
                    elif tipe == "onehot_tuple": o.append(v.onehot)
                    else: o.extend(v.onehot)
                new.append(o)
            st.rows = new; st._ncols = len(new[0]); st.headers = None; st.label = None
        else:
            st.posmap = None
            catk = [u for u in st.universe if any(isinstance(r.get(u), MCat) for r in st.rows)]
            if any(not isinstance(r.get(u), MCat) for r in st.rows for u in catk): raise Invalid("categorical column absent / other cells")
            if tipe == "onehot":
                newkeys = {u: [f"{u}_{j}" for j in range(len(st.rows[0][u].levels))] for u in catk}
                if any(len(r[u].levels) != len(newkeys[u]) for r in st.rows for u in catk): raise Invalid("levels differ")
                flat = [n for u in catk for n in newkeys[u]]
                if len(set(flat)) != len(flat) or set(flat) & set(st.universe): raise Invalid("one-hot key collides")
            for r in st.rows:
                for u in catk:
                    v = r[u]
                    if tipe == "string": r[u] = str.__str__(v)
                    elif tipe == "onehot_tuple": r[u] = v.onehot
                    else:
                        del r[u]; r[f"{u}_{v.onehot.index(1)}"] = 1
            if tipe == "onehot":
                uni = []
                for u in st.universe:
                    if u in newkeys:
                        uni.extend(newkeys[u]); st.zero.pop(u, None)
                        for n in newkeys[u]: st.zero[n] = 0
                    else: uni.append(u)
                st.universe = uni
            st.label = None
    else:
        raise Invalid(f"stage {k}")
    if not row_only:
        # the label stays the column it was given as (moved by column drops, renamed by sparse header maps); the parts
        # stop being defined only when a stage drops that column or rebuilds the rows (EncodeCatRows)
        st.feats_ok = st.feats_ok and st.label is not None
        st.arff_fresh = False
    elif k == "cat" and s["tipe"] is not None:
        pass
    return st

def run_model(spec):
    st = model_source(spec["layout"], spec["source"])
    for s in spec["stages"]:
        st = apply_stage(st, s)
    if st.label is None: st.feats_ok = False
    return st

def resolution(st, s):
    """what stage s resolves against the table in state st (the state *before* the stage): the things a filter object
    works out from the first row it sees -- width, position of a header name, key of a position, categorical columns.
    Two tables with different resolutions for one stage need a filter object that resolves per table."""
    k = s["k"]; dense = st.layout == "dense"
    hdr = st.headers or {}
    if k == "head": return (st.layout, st.ncols())
    if k == "encode":
        if not dense: return ("sparse",)
        if s["form"] == "seq": return ("dense", st._ncols)
        return ("dense", st._ncols, tuple(sorted(hdr.get(key, -1) if isinstance(key, str) else key for key, _ in s["items"])))
    if k == "drop":
        if not s["cols"]: return None
        if not dense: return ("sparse",)
        pos = {hdr.get(c, -1) if isinstance(c, str) else c for c in s["cols"]}
        return ("dense", st._ncols, tuple(sorted(p for p in pos if 0 <= p < st._ncols)))
    if k == "label":
        key = s["key"]
        if dense: return ("dense", hdr.get(key, -1) if isinstance(key, str) else key)
        if s.get("via") == "pos": return ("sparse", (st.posmap or {}).get(key))
        return ("sparse", key)
    if k == "cat":
        if dense: return ("dense", tuple(i for i in range(st._ncols) if any(isinstance(r[i], MCat) for r in st.rows)))
        return ("sparse", tuple(sorted((u for u in st.universe if any(isinstance(r.get(u), MCat) for r in st.rows)), key=repr)))
    return None

def materialise_prefix(spec, i, lazy=False):
    """the table as it is after the first i stages, as plain lists/dicts (+ a HeadRows stage for dense headers),
    followed by the remaining stages: used by the shrinker only.  Label information of the prefix is dropped."""
    st = model_source(spec["layout"], spec["source"])
    for s in spec["stages"][:i]: st = apply_stage(st, s)
    if not st.rows: raise Invalid("no rows left")
    rest = list(spec["stages"][i:])
    if spec["layout"] == "dense":
        new = {"kind": "lazy" if lazy else "list", "rows": [to_spec_row(r) for r in st.rows]}
        if st.headers:
            pairs = sorted(st.headers.items(), key=lambda kv: kv[1])
            if len(pairs) == st._ncols: rest = [{"k": "head", "form": "seq", "names": [n for n, _ in pairs]}] + rest
            else: rest = [{"k": "head", "form": "pmap", "map": [[n, p] for n, p in pairs]}] + rest
        return dict(spec, source=new, stages=rest)
    if st.posmap and any(s["k"] == "label" and s.get("via") == "pos" for s in rest):
        # a later stage picks its label by position: keep the positions as keys of plain dicts under a header map
        n2p = {n: p for p, n in st.posmap.items()}
        if all(u in n2p for u in st.universe) and st.universe:
            new = {"kind": "lazy" if lazy else "dict", "cols": [[n2p[u], st.zero.get(u)] for u in st.universe],
                   "rows": [[[n2p[k], to_spec(v)] for k, v in r.items()] for r in st.rows]}
            return dict(spec, source=new, stages=[{"k": "head", "form": "map", "map": [[u, n2p[u]] for u in st.universe]}] + rest)
    new = {"kind": "lazy" if lazy else "dict", "cols": [[u, st.zero.get(u)] for u in st.universe], "rows": [to_spec_dict(r) for r in st.rows]}
    return dict(spec, source=new, stages=rest)

def plain_equivalent(spec):
    """the same table as plain lists/dicts (+ a HeadRows stage for dense headers): used by the shrinker only"""
    src = spec["source"]
    if src["kind"] in ("list", "dict"): raise Invalid("already plain")
    st = model_source(spec["layout"], src)
    if spec["layout"] == "dense":
        new = {"kind": "list", "rows": [to_spec_row(r) for r in st.rows]}
        stages = list(spec["stages"])
        if st.headers:
            pairs = sorted(st.headers.items(), key=lambda kv: kv[1])
            stages = [{"k": "head", "form": "pmap", "map": [[n, p] for n, p in pairs]}] + stages
        return dict(spec, source=new, stages=stages)
    new = {"kind": "dict", "cols": [[u, st.zero.get(u)] for u in st.universe], "rows": [to_spec_dict(r) for r in st.rows]}
    return dict(spec, source=new)

# ------------------------------------------------------------------------------------------ mutations for 'row != other'
def mutate_dense(row, r):
    row = list(row); how = r % 3
    if how == 0 and row: row[(r // 3) % len(row)] = "§"
    elif how == 2 and row: row.pop()
    else: row.append("§")
    return row
def mutate_sparse(row, r):
    row = dict(row); how = r % 3; keys = sorted(row, key=repr)
    if how == 0 and keys: row[keys[(r // 3) % len(keys)]] = "§"
    elif how == 2 and keys: del row[keys[(r // 3) % len(keys)]]
    else: row["§"] = 1
    return row

# ------------------------------------------------------------------------------------------ real objects
def chain_of(row):
    names = []
    cur = row
    for _ in range(12):
        names.append(type(cur).__name__)
        try: cur = object.__getattribute__(cur, "_row")
        except AttributeError: break
        if cur is None: break
    return ">".join(names)

def real_source(layout, src):
    from coba.pipes.rows import LazyDense, LazySparse
    kind = src["kind"]
    if kind == "csv_text":
        from coba.pipes.readers import CsvReader
        hdr = src.get("header")
        lines = ([",".join(hdr)] if hdr is not None else []) + [",".join(r) for r in src["rows"]]
        return CsvReader(has_header=hdr is not None).filter(lines)
    if kind == "arff_text":
        if any(a[1].startswith("x:") for a in src["attrs"]): raise Invalid("custom encoders need arff_lazy")
        from coba.pipes.readers import ArffReader
        lines = ["@relation r"] + [f"@attribute {n} {t}" for n, t in src["attrs"]] + ["@data"]
        if layout == "dense": lines += [",".join(toks) for toks in src["rows"]]
        else: lines += ["{" + ",".join(f"{i} {t}" for i, t in pairs) + "}" for pairs in src["rows"]]
        return ArffReader().filter(lines)
    if kind == "arff_lazy":
        from coba.pipes.readers import ArffAttrReader
        names = [a[0] for a in src["attrs"]]
        encoders = [_PLAIN[a[1][2:]] if a[1].startswith("x:") else ArffAttrReader(layout == "dense")._encoder(a[1]) for a in src["attrs"]]
        loader = src.get("loader", True)
        if layout == "dense":
            hdr = dict(zip(names, count()))
            enc = tuple(encoders)
            out = []
            for toks in src["rows"]:
                raw = list(toks)
                out.append(LazyDense((lambda raw=raw: list(raw)) if loader else raw, enc, hdr, "?" in toks))
            return out
        encs = dict(enumerate(encoders)); fwd = dict(zip(names, count())); inv = dict(zip(count(), names)); nsp = set()
        for k, v in encs.items():
            try:
                if v("0") != 0: nsp.add(k)
            except Exception: pass
        out = []
        for pairs in src["rows"]:
            raw = {i: t for i, t in pairs}
            out.append(LazySparse((lambda raw=raw: dict(raw)) if loader else raw, encs, nsp, fwd, inv, "?" in raw.values()))
        return out
    if layout == "dense":
        rows = [real_row_dense(r) for r in src["rows"]]
        if kind == "list":  return rows
        if kind == "tuple": return [tuple(r) for r in rows]
        if kind == "lazy":  return [LazyDense(r) for r in rows]
        if kind == "lazy_loader": return [LazyDense(lambda r=r: list(r)) for r in rows]
    else:
        rows = [real_row_sparse(p) for p in src["rows"]]
        if kind == "dict": return rows
        if kind == "lazy": return [LazySparse(r) for r in rows]
        if kind == "lazy_loader": return [LazySparse(lambda r=r: dict(r)) for r in rows]
    raise Invalid(kind)

def _real_pred(layout, pred):
    p = pred["p"]
    if p == "missing":
        from operator import attrgetter
        return attrgetter("missing")
    if p == "lenodd": return lambda row: len(row) % 2 == 1
    if p == "eq":
        key, val = pred["key"], real_cell(pred["val"])
        return lambda row: row[key] == val
    if p == "has":
        val = real_cell(pred["val"])
        return lambda row: val in list(row)
    if p == "haskey":
        key = pred["key"]
        return lambda row: key in row.keys()
    raise Invalid(p)

def real_filter(layout, s):
    from coba.pipes.rows import HeadRows, EncodeRows, DropRows, LabelRows, EncodeCatRows
    k = s["k"]
    if k == "head":
        if layout == "dense":
            if s["form"] == "seq": return HeadRows(list(s["names"]))
            if s["form"] == "map": return HeadRows({n: i for i, n in enumerate(s["names"])})
            if s["form"] == "pmap": return HeadRows({n: p for n, p in s["map"]})
            return HeadRows({s["names"][i]: i for i in s["order"]})
        if s["form"] == "seq": return HeadRows(list(s["names"]))
        return HeadRows({n: key for n, key in s["map"]})
    if k == "encode":
        if s["form"] == "seq": return EncodeRows([enc_real(n) for n in s["encs"]])
        return EncodeRows({key: enc_real(n) for key, n in s["items"]})
    if k == "drop":
        return DropRows(drop_cols=list(s["cols"]), drop_row=_real_pred(layout, s["pred"]) if s.get("pred") else None)
    if k == "label":
        return LabelRows(s["key"], s["tipe"])
    if k == "cat":
        return EncodeCatRows(s["tipe"])
    raise Invalid(k)
