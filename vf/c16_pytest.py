"""pytest plugin (thorough tier of C16): switches the C16 contracts on before coba's own learner tests run."""
import json
def pytest_configure(config):
    from vf.props import c16
    c16._install()
def pytest_unconfigure(config):
    from vf.props import c16
    print("\nC16-CONTRACT-COUNTERS " + json.dumps(dict(c16._CNT)))
