import sys, os, argparse
from vf.core import run_property

def main():
    ap = argparse.ArgumentParser()
    ap.add_argument("prop")
    ap.add_argument("--tier", default="quick", choices=["quick", "thorough"])
    ap.add_argument("--replay", default=None)
    a = ap.parse_args()
    tier = os.environ.get("VERIF_TIER") or a.tier
    if tier not in ("quick", "thorough"): tier = a.tier
    try: seed = int(os.environ.get("VERIF_SEED", "0"))
    except ValueError: seed = 0
    sys.exit(run_property(a.prop.upper(), tier, seed, a.replay))

if __name__ == "__main__":
    main()
