"""python -m vf.c02_kill <in.json>: runs an experiment writing to a result file whose file object kills the process
(os._exit(137), no cleanup) once k bytes have been handed to it -- a source-free failpoint inside DiskSink's writes."""
import sys, os, json

def main():
    a = json.load(open(sys.argv[1]))
    import coba.pipes.sinks as sinks
    state = {"n": 0}
    K = a["k"]
    class KillingFile:
        def __init__(self, f): self.f = f
        def write(self, b):
            room = K - state["n"]
            if len(b) >= room:
                self.f.write(b[:room]); self.f.flush()
                try: os.fsync(self.f.fileno())
                except Exception: pass
                os._exit(137)
            state["n"] += len(b)
            return self.f.write(b)
        def __getattr__(self, n): return getattr(self.f, n)
    orig_enter = sinks.DiskSink.__enter__
    def enter(self):
        fresh = self._file is None
        r = orig_enter(self)
        if fresh and not isinstance(self._file, KillingFile): self._file = KillingFile(self._file)
        return r
    sinks.DiskSink.__enter__ = enter
    from vf import expkit as X
    X.run_inproc(a["spec"], (1, 0, 0), result_file=a["path"])
    os._exit(0)

if __name__ == "__main__":
    main()
